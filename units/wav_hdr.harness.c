/* C11 / C08 / C04: the length bookkeeping of the WAV header writer and tailer (src/wav.c).
** wav_write_header (calc_length): the audio length that goes into the 'data' chunk is taken from the bytes in the
** file for encodings without a fixed sample width (block codecs), from frames x width x channels otherwise, and
** never includes what follows the audio (dataend); the file position is restored.
** wav_write_tailer: the end of the audio is recomputed from the frame count whenever the width is known -- a value
** left from parsing or from before SFC_FILE_TRUNCATE is never trusted -- and the tail chunks go behind it.
** psf_binheader_writef (variadic) is redirected to a non-variadic model that only advances the header cache index:
** the bytes of the header are not the subject here.  Channel count and sample width are enumerated.
*/
#include "env_pre.h"
#define psf_log_printf(...)				verif_nolog ()
#define psf_binheader_writef(psf, ...)	verif_writef (psf)
struct sf_private_tag ;
int verif_writef (struct sf_private_tag *psf) ;
#include "wav.c"
void verif_nolog (void) { }
#include "ghost.h"
#include "env_stubs.h"

#ifndef CH
#define CH 2
#endif
#ifndef BW
#define BW 0
#endif
#define HDRLEN 4096

/* E1 model of the header serialiser: appends some bytes to the header cache */
int verif_writef (SF_PRIVATE *psf)
{	int n_nd ; int n = n_nd ;
	__CPROVER_assume (0 <= n && n <= 64 && psf->header.indx + n <= HDRLEN - 64) ;
	psf->header.indx += n ;
	return n ;
}

sf_count_t g_filelen, g_seek_arg ; int g_seek_calls, g_fwrite_calls ; sf_count_t g_fwrite_at ;
sf_count_t vin_dataoffset, vin_dataend, vin_frames, vin_pos ; int vin_calc, vin_seekable ;

sf_count_t psf_ftell (SF_PRIVATE *psf)
__CPROVER_requires (__CPROVER_r_ok (psf, sizeof (SF_PRIVATE)))
__CPROVER_assigns (psf->error, psf->syserr)
__CPROVER_ensures (__CPROVER_return_value == vin_pos && psf->error == __CPROVER_old (psf->error))
;
sf_count_t psf_get_filelen (SF_PRIVATE *psf)
__CPROVER_requires (__CPROVER_r_ok (psf, sizeof (SF_PRIVATE)))
__CPROVER_assigns (psf->error, psf->syserr)
__CPROVER_ensures (__CPROVER_return_value == g_filelen && psf->error == __CPROVER_old (psf->error))
;
sf_count_t psf_fseek (SF_PRIVATE *psf, sf_count_t offset, int whence)
__CPROVER_requires (__CPROVER_r_ok (psf, sizeof (SF_PRIVATE)))
__CPROVER_assigns (psf->error, psf->syserr, psf->pipeoffset, g_seek_arg, g_seek_calls)
__CPROVER_ensures (g_seek_arg == offset && g_seek_calls == __CPROVER_old (g_seek_calls) + 1 && psf->error == __CPROVER_old (psf->error))
__CPROVER_ensures (whence == SEEK_END ==> __CPROVER_return_value == g_filelen + offset)
;
sf_count_t psf_fwrite (const void *ptr, sf_count_t bytes, sf_count_t items, SF_PRIVATE *psf)
__CPROVER_requires (__CPROVER_r_ok (psf, sizeof (SF_PRIVATE)) && bytes >= 0 && bytes <= HDRLEN && items == 1 && __CPROVER_r_ok (ptr, (size_t) bytes))
__CPROVER_assigns (psf->error, psf->syserr, psf->pipeoffset, g_fwrite_calls, g_fwrite_at)
__CPROVER_ensures (g_fwrite_calls == __CPROVER_old (g_fwrite_calls) + 1 && g_fwrite_at == g_seek_arg)
;
#define CHUNK_WRITER(decl)	decl \
	__CPROVER_requires (__CPROVER_w_ok (psf, sizeof (SF_PRIVATE)) && 0 <= psf->header.indx && psf->header.indx <= HDRLEN - 1024) \
	__CPROVER_assigns (psf->header.indx, psf->error) \
	__CPROVER_ensures (psf->header.indx >= __CPROVER_old (psf->header.indx) && psf->header.indx <= __CPROVER_old (psf->header.indx) + 512) ;
CHUNK_WRITER (static int wav_write_fmt_chunk (SF_PRIVATE *psf))
CHUNK_WRITER (static int wavex_write_fmt_chunk (SF_PRIVATE *psf))
CHUNK_WRITER (void wavlike_write_strings (SF_PRIVATE *psf, int location))
CHUNK_WRITER (void wavlike_write_peak_chunk (SF_PRIVATE *psf))
CHUNK_WRITER (int wavlike_write_bext_chunk (SF_PRIVATE *psf))
CHUNK_WRITER (int wavlike_write_cart_chunk (SF_PRIVATE *psf))
CHUNK_WRITER (void wavlike_write_custom_chunks (SF_PRIVATE *psf))

#define HANDLE	(__CPROVER_is_fresh (psf, sizeof (SF_PRIVATE)) && __CPROVER_is_fresh (psf->header.ptr, HDRLEN) && psf->header.len == HDRLEN \
	&& psf->sf.channels == CH && psf->bytewidth == BW && 0 <= psf->sf.frames && psf->sf.frames <= (1LL << 40) && psf->sf.frames == vin_frames \
	&& 0 <= psf->dataoffset && psf->dataoffset <= 2048 && psf->dataoffset == vin_dataoffset \
	&& 0 <= psf->dataend && psf->dataend <= (1LL << 50) && psf->dataend == vin_dataend && psf->sf.seekable == vin_seekable \
	&& 0 <= g_filelen && g_filelen <= (1LL << 50) && 0 <= vin_pos && vin_pos <= (1LL << 50) \
	&& (psf->peak_info == NULL || __CPROVER_is_fresh (psf->peak_info, sizeof (PEAK_INFO))) \
	/* assumption: no cue / instrument metadata (their serialisation loops are outside this unit) */ \
	&& psf->cues == NULL && psf->instrument == NULL)

#define AUDIO_BYTES	(vin_frames * BW * CH)

static int wav_write_header (SF_PRIVATE *psf, int calc_length)
__CPROVER_requires (HANDLE && calc_length == vin_calc && g_seek_calls == 0)
__CPROVER_assigns (__CPROVER_object_whole (psf->header.ptr), psf->header.indx, psf->filelength, psf->datalength, psf->dataoffset, psf->error, psf->syserr, psf->pipeoffset,
	g_seek_arg, g_seek_calls, g_fwrite_calls, g_fwrite_at)
__CPROVER_ensures ((vin_calc && vin_dataend == 0 && (BW == 0 || vin_seekable != SF_TRUE)) ==> psf->datalength == g_filelen - vin_dataoffset) /*@C11.block_codec_data_length_is_the_bytes_in_the_file*/ /*@C04.block_codec_data_length_is_the_bytes_in_the_file*/
__CPROVER_ensures ((vin_calc && vin_dataend == 0 && BW > 0 && vin_seekable == SF_TRUE) ==> psf->datalength == AUDIO_BYTES) /*@C11.pcm_data_length_is_frames_times_width*/ /*@C04.pcm_data_length_is_frames_times_width*/
__CPROVER_ensures ((vin_calc && vin_dataend != 0) ==> psf->datalength == vin_dataend - vin_dataoffset) /*@C11.data_length_excludes_the_tail_chunks*/
__CPROVER_ensures (vin_calc ==> psf->filelength == g_filelen) /*@C11.riff_length_from_the_file*/
__CPROVER_ensures ((__CPROVER_return_value == 0 && vin_pos > vin_dataoffset && vin_pos > 0) ==> g_seek_arg == vin_pos) /*@C11.header_update_restores_position*/
__CPROVER_ensures (g_fwrite_calls <= 1 && (g_fwrite_calls == 1 ==> g_fwrite_at == 0)) /*@C11.header_written_at_the_start_of_the_file*/
;

static int wav_write_tailer (SF_PRIVATE *psf)
__CPROVER_requires (HANDLE && g_seek_calls == 0 && g_fwrite_calls == 0)
/* the tailer runs at close, after at least one header was written: the audio does not start at byte 0 */
__CPROVER_requires (psf->dataoffset >= 44)
__CPROVER_assigns (__CPROVER_object_whole (psf->header.ptr), psf->header.indx, psf->datalength, psf->dataend, psf->error, psf->syserr, psf->pipeoffset,
	g_seek_arg, g_seek_calls, g_fwrite_calls, g_fwrite_at)
__CPROVER_ensures ((BW > 0 && vin_seekable == SF_TRUE) ==> (psf->datalength == AUDIO_BYTES && psf->dataend == vin_dataoffset + AUDIO_BYTES)) /*@C08.end_of_audio_recomputed_from_the_frame_count*/ /*@C04.end_of_audio_recomputed_from_the_frame_count*/
__CPROVER_ensures ((BW > 0 && vin_seekable == SF_TRUE && g_fwrite_calls == 1) ==> g_fwrite_at == vin_dataoffset + AUDIO_BYTES) /*@C08.tail_chunks_written_behind_the_audio*/
__CPROVER_ensures (((BW == 0 || vin_seekable != SF_TRUE) && vin_dataend == 0) ==> psf->dataend == g_filelen) /*@C08.block_codec_tail_at_end_of_file*/
__CPROVER_ensures (__CPROVER_return_value == 0)
;

void h_wav_write_header (void)
{	SF_PRIVATE *psf ; int calc ;
	{ sf_count_t a [6] ; int b [2] ; vin_dataoffset = a [0] ; vin_dataend = a [1] ; vin_frames = a [2] ; vin_pos = a [3] ; g_filelen = a [4] ; vin_calc = b [0] ; vin_seekable = b [1] ; }
	g_seek_calls = 0 ; g_fwrite_calls = 0 ;
	int r = wav_write_header (psf, calc) ;
	REACH (r == 0 && vin_calc && vin_pos > vin_dataoffset, "header update in mid stream") ;
	CANARY () ;
}
void h_wav_write_tailer (void)
{	SF_PRIVATE *psf ;
	{ sf_count_t a [6] ; int b [2] ; vin_dataoffset = a [0] ; vin_dataend = a [1] ; vin_frames = a [2] ; vin_pos = a [3] ; g_filelen = a [4] ; vin_seekable = b [1] ; }
	g_seek_calls = 0 ; g_fwrite_calls = 0 ;
	wav_write_tailer (psf) ;
	REACH (g_fwrite_calls == 1, "tail chunks written") ;
	CANARY () ;
}
