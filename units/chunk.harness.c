/* C13 (C03, C16, C19): src/chunk.c under contract.  The real file is included
** unmodified; contracts are attached by re-declaration below. */
#include "env_pre.h"
#include "chunk.c"
#include "ghost.h"
#include "env_stubs.h"

/* ---- ghost ---- */
size_t g_byte ;			/* arbitrary byte offset, never assigned after the harness havoc */
int g_nul ;
unsigned char g_oldbyte ;
unsigned vin_count, vin_used, vin_datalen ;	/* input mirrors for replay */	/* value of byte g_byte of the table before the call */				/* position of a NUL in the identifier string */

#define CHUNK_CAP		4096		/* contract bound on table capacity (objects stay below CBMC's max object size) */

/* representation invariants of the two chunk tables */
#define WCHUNKS_WF(p)	((p)->count == 0 ? ((p)->used == 0 && (p)->chunks == NULL) : \
						((p)->used <= (p)->count && (p)->count <= CHUNK_CAP && \
						 __CPROVER_is_fresh ((p)->chunks, (size_t) (p)->count * sizeof (WRITE_CHUNK))))
#define WCHUNKS_WF_POST(p)	((p)->count == 0 ? 1 : \
						((p)->used <= (p)->count && \
						 __CPROVER_w_ok ((p)->chunks, (size_t) (p)->count * sizeof (WRITE_CHUNK))))
#define RCHUNKS_WF(p)	((p)->count == 0 ? ((p)->used == 0 && (p)->chunks == NULL) : \
						((p)->used <= (p)->count && (p)->count <= CHUNK_CAP && \
						 __CPROVER_is_fresh ((p)->chunks, (size_t) (p)->count * sizeof (READ_CHUNK))))
#define RCHUNKS_WF_POST(p)	((p)->count == 0 ? 1 : \
						((p)->used <= (p)->count && \
						 __CPROVER_w_ok ((p)->chunks, (size_t) (p)->count * sizeof (READ_CHUNK))))

/* ---- environment: realloc (E1).  May fail; on success a fresh block of the requested size, the
** old block is released, and of the common prefix the arbitrary byte g_byte is preserved (every
** other byte of the new block is unconstrained: weaker than the real function). ---- */
void * realloc (void *ptr, size_t size)
{	_Bool fail_nd ;
	if (fail_nd)
		return NULL ;
	unsigned char * n = malloc (size) ;
	if (n == NULL)
		return NULL ;
	if (ptr != NULL)
	{	if (g_byte < size && __CPROVER_r_ok (ptr, g_byte + 1))
			n [g_byte] = ((const unsigned char *) ptr) [g_byte] ;
		free (ptr) ;
		} ;
	return n ;
}

/* ---- callees of other files, by contract ---- */
void * psf_memdup (const void *src, size_t n)
__CPROVER_requires (src == NULL || __CPROVER_r_ok (src, n))
__CPROVER_assigns ()
__CPROVER_ensures (__CPROVER_return_value == NULL || __CPROVER_is_fresh (__CPROVER_return_value, (n & 3) ? n + 4 - (n & 3) : n))
;

/* pure hash; value unspecified here (enforced separately: safe, terminates, assigns nothing) */
static int64_t hash_of_str (const char * str)
__CPROVER_requires (0 <= g_nul && g_nul < 4096 && __CPROVER_is_fresh (str, (size_t) g_nul + 1) && str [g_nul] == 0) /*@C13.hash_pre_string*/
__CPROVER_assigns ()
;

/* ---- chunk.c ---- */

int psf_save_write_chunk (WRITE_CHUNKS * pchk, const SF_CHUNK_INFO * chunk_info)
__CPROVER_requires (__CPROVER_is_fresh (pchk, sizeof (*pchk)))
__CPROVER_requires (WCHUNKS_WF (pchk))
__CPROVER_requires ((g_byte < (size_t) pchk->used * sizeof (WRITE_CHUNK)) ==> ((const unsigned char *) pchk->chunks) [g_byte] == g_oldbyte)
__CPROVER_requires (__CPROVER_is_fresh (chunk_info, sizeof (*chunk_info)))
__CPROVER_requires (0 <= g_nul && g_nul < 64 && chunk_info->id [g_nul] == 0)
__CPROVER_requires (chunk_info->datalen <= 0x7ffffff0u)
__CPROVER_requires (pchk->count == vin_count && pchk->used == vin_used && chunk_info->datalen == vin_datalen)
__CPROVER_requires (__CPROVER_is_fresh (chunk_info->data, chunk_info->datalen > 0 ? chunk_info->datalen : 1))
__CPROVER_assigns (pchk->count, pchk->used, pchk->chunks; pchk->count != 0: __CPROVER_object_whole (pchk->chunks))
__CPROVER_frees (pchk->count != 0: pchk->chunks)
__CPROVER_ensures (__CPROVER_return_value == 0 ==> WCHUNKS_WF_POST (pchk)) /*@C13.wchunks_wf*/
__CPROVER_ensures (__CPROVER_return_value == 0 || __CPROVER_return_value == SFE_MALLOC_FAILED) /*@C13.save_ret*/
__CPROVER_ensures (__CPROVER_return_value == 0 ==> (pchk->used == __CPROVER_old (pchk->used) + 1 && pchk->used <= pchk->count)) /*@C13.save_used_plus_one*/
__CPROVER_ensures (__CPROVER_return_value != 0 ==> pchk->used == __CPROVER_old (pchk->used)) /*@C13.save_fail_keeps_used*/
__CPROVER_ensures (__CPROVER_return_value == 0 ==> (pchk->chunks [pchk->used - 1].len == ((__CPROVER_old (chunk_info->datalen) + 3u) & ~3u))) /*@C13.save_len_padded*/
__CPROVER_ensures ((__CPROVER_return_value == 0 && pchk->chunks [pchk->used - 1].data != NULL) ==>
					__CPROVER_r_ok (pchk->chunks [pchk->used - 1].data, pchk->chunks [pchk->used - 1].len)) /*@C13.save_block_holds_len*/
__CPROVER_ensures ((g_byte < (size_t) __CPROVER_old (pchk->used) * sizeof (WRITE_CHUNK)) ==>
					((const unsigned char *) pchk->chunks) [g_byte] == g_oldbyte) /*@C13.save_earlier_entries_unchanged*/
;

static int psf_store_read_chunk (READ_CHUNKS * pchk, const READ_CHUNK * rchunk)
__CPROVER_requires (__CPROVER_is_fresh (pchk, sizeof (*pchk)))
__CPROVER_requires (RCHUNKS_WF (pchk))
__CPROVER_requires ((g_byte < (size_t) pchk->used * sizeof (READ_CHUNK)) ==> ((const unsigned char *) pchk->chunks) [g_byte] == g_oldbyte)
__CPROVER_requires (__CPROVER_is_fresh (rchunk, sizeof (*rchunk)))
__CPROVER_assigns (pchk->count, pchk->used, pchk->chunks; pchk->count != 0: __CPROVER_object_whole (pchk->chunks))
__CPROVER_frees (pchk->count != 0: pchk->chunks)
__CPROVER_ensures (__CPROVER_return_value == 0 ==> RCHUNKS_WF_POST (pchk)) /*@C13.rchunks_wf*/
__CPROVER_ensures (__CPROVER_return_value == 0 || __CPROVER_return_value == SFE_MALLOC_FAILED) /*@C13.store_ret*/
__CPROVER_ensures (__CPROVER_return_value == 0 ==> (pchk->used == __CPROVER_old (pchk->used) + 1 && pchk->used <= pchk->count)) /*@C13.store_used_plus_one*/
__CPROVER_ensures (__CPROVER_return_value != 0 ==> pchk->used == __CPROVER_old (pchk->used)) /*@C13.store_fail_keeps_used*/
__CPROVER_ensures (__CPROVER_return_value == 0 ==> (pchk->chunks [pchk->used - 1].hash == rchunk->hash && pchk->chunks [pchk->used - 1].mark32 == rchunk->mark32
					&& pchk->chunks [pchk->used - 1].offset == rchunk->offset && pchk->chunks [pchk->used - 1].len == rchunk->len
					&& pchk->chunks [pchk->used - 1].id_size == rchunk->id_size
					&& ((0 <= g_idx && g_idx < 64) ==> pchk->chunks [pchk->used - 1].id [g_idx] == rchunk->id [g_idx]))) /*@C13.store_new_entry_is_copy*/
__CPROVER_ensures ((g_byte < (size_t) __CPROVER_old (pchk->used) * sizeof (READ_CHUNK)) ==>
					((const unsigned char *) pchk->chunks) [g_byte] == g_oldbyte) /*@C13.store_earlier_entries_unchanged*/
;

/* lookups: result is an index of a stored chunk with the key, or -1 */
int psf_find_read_chunk_m32 (const READ_CHUNKS * pchk, uint32_t marker)
__CPROVER_requires (__CPROVER_is_fresh (pchk, sizeof (*pchk)))
__CPROVER_requires (RCHUNKS_WF (pchk))
__CPROVER_assigns ()
__CPROVER_ensures (__CPROVER_return_value == -1 || (0 <= __CPROVER_return_value && (uint32_t) __CPROVER_return_value < pchk->used
					&& pchk->chunks [__CPROVER_return_value].mark32 == marker)) /*@C13.find_m32_hit*/
__CPROVER_ensures ((0 <= g_idx && (uint32_t) g_idx < pchk->used && pchk->chunks [g_idx].mark32 == marker) ==>
					(0 <= __CPROVER_return_value && __CPROVER_return_value <= g_idx)) /*@C13.find_m32_first*/
;

int psf_find_read_chunk_iterator (const READ_CHUNKS * pchk, const SF_CHUNK_ITERATOR * marker)
__CPROVER_requires (__CPROVER_is_fresh (pchk, sizeof (*pchk)))
__CPROVER_requires (__CPROVER_is_fresh (marker, sizeof (*marker)))
__CPROVER_requires (pchk->used <= 0x7fffffff)
__CPROVER_assigns ()
__CPROVER_ensures (marker->current < pchk->used ? __CPROVER_return_value == (int) marker->current : __CPROVER_return_value == -1) /*@C13.find_iter*/
;

/* iteration: strictly increasing position, only matching chunks, NULL (and a cleared iterator) after the last */
SF_CHUNK_ITERATOR * psf_next_chunk_iterator (const READ_CHUNKS * pchk , SF_CHUNK_ITERATOR * iterator)
__CPROVER_requires (__CPROVER_is_fresh (pchk, sizeof (*pchk)))
__CPROVER_requires (RCHUNKS_WF (pchk))
__CPROVER_requires (__CPROVER_is_fresh (iterator, sizeof (*iterator)))
__CPROVER_requires (iterator->current < 0xffffffffu)
__CPROVER_assigns (__CPROVER_object_whole (iterator))
__CPROVER_ensures (__CPROVER_return_value == NULL || __CPROVER_return_value == iterator) /*@C13.next_ret*/
__CPROVER_ensures (__CPROVER_return_value != NULL ==> (iterator->current > __CPROVER_old (iterator->current) && iterator->current < pchk->used)) /*@C13.next_strictly_increasing_in_range*/
__CPROVER_ensures ((__CPROVER_return_value != NULL && __CPROVER_old (iterator->hash) != 0) ==>
					pchk->chunks [iterator->current].hash == (uint64_t) __CPROVER_old (iterator->hash)) /*@C13.next_matches_id*/
__CPROVER_ensures ((__CPROVER_return_value != NULL && __CPROVER_old (iterator->hash) == 0) ==>
					iterator->current == __CPROVER_old (iterator->current) + 1) /*@C13.next_full_iteration_visits_successor*/
__CPROVER_ensures ((__CPROVER_old (iterator->hash) != 0 && 0 <= g_idx && (uint32_t) g_idx > __CPROVER_old (iterator->current) && (uint32_t) g_idx < pchk->used
					&& pchk->chunks [g_idx].hash == (uint64_t) __CPROVER_old (iterator->hash)) ==>
					(__CPROVER_return_value != NULL && iterator->current <= (uint32_t) g_idx)) /*@C13.next_skips_no_match*/
__CPROVER_ensures ((__CPROVER_old (iterator->hash) == 0 && __CPROVER_old (iterator->current) + 1 < pchk->used) ==> __CPROVER_return_value != NULL) /*@C13.next_not_early_null*/
__CPROVER_ensures (__CPROVER_return_value == NULL ==> (iterator->current == 0 && iterator->hash == 0 && iterator->id_size == 0)) /*@C13.next_cleared_after_last*/
;

/* ---------------- entry points ---------------- */

void h_save_write_chunk (void)
{	WRITE_CHUNKS * pchk ; const SF_CHUNK_INFO * ci ;
	size_t nd ; int nd2 ;
	unsigned char nd3 ; unsigned m1, m2, m3 ; g_byte = nd ; g_nul = nd2 ; g_oldbyte = nd3 ;
	vin_count = m1 ; vin_used = m2 ; vin_datalen = m3 ;
	GHOST_HAVOC () ;
	int r = psf_save_write_chunk (pchk, ci) ;
	CANARY () ;
}

void h_store_read_chunk (void)
{	READ_CHUNKS * pchk ; const READ_CHUNK * rc ;
	size_t nd ; unsigned char nd3 ;
	g_byte = nd ; g_oldbyte = nd3 ;
	GHOST_HAVOC () ;
	int r = psf_store_read_chunk (pchk, rc) ;
	CANARY () ;
}

void h_find_m32 (void)
{	const READ_CHUNKS * pchk ; uint32_t m ;
	GHOST_HAVOC () ;
	psf_find_read_chunk_m32 (pchk, m) ;
	CANARY () ;
}

void h_find_iterator (void)
{	const READ_CHUNKS * pchk ; const SF_CHUNK_ITERATOR * it ;
	psf_find_read_chunk_iterator (pchk, it) ;
	CANARY () ;
}

void h_next_iterator (void)
{	const READ_CHUNKS * pchk ; SF_CHUNK_ITERATOR * it ;
	GHOST_HAVOC () ;
	psf_next_chunk_iterator (pchk, it) ;
	CANARY () ;
}

void h_hash_of_str (void)
{	const char * s ; int nd ;
	g_nul = nd ;
	hash_of_str (s) ;
	CANARY () ;
}
