/* C16: psf_close (src/sndfile.c), the single release function used by sf_close and by every failing sf_open.
** Plain harness through the REAL function under CBMC's heap model with --memory-leak-check: the handle owns any
** subset of the 19 blocks psf_close is responsible for (each one NULL or a live heap block, independently), the
** write-chunk table holds up to NCHUNKS payload blocks, either close hook may be installed.  Claims: after the
** call no block obtained for the handle is still allocated (the leak check tracks an arbitrary one), nothing is
** released twice (pointer checks), each installed hook ran exactly once, the descriptor close ran exactly once
** and its result is what the call returns.
** Bounded in one dimension only: the number of stored write chunks (<= NCHUNKS, loop unwound completely).
*/
#include "env_pre.h"
#include "sndfile.c"
#include "ghost.h"

#ifndef NCHUNKS
#define NCHUNKS 3
#endif

int g_fclose_calls, g_fclose_ret, g_rsrc_calls, g_codec_close_calls, g_container_close_calls ;
int psf_fclose (SF_PRIVATE *psf) { g_fclose_calls ++ ; return g_fclose_ret ; }
int psf_close_rsrc (SF_PRIVATE *psf) { g_rsrc_calls ++ ; return 0 ; }
/* close hooks: release what is nested inside their private block (one nested block each stands for them) */
static void *nested_codec, *nested_container ;
static int codec_close_stub (SF_PRIVATE *psf) { int r_nd ; g_codec_close_calls ++ ; free (nested_codec) ; nested_codec = NULL ; return r_nd ; }
static int container_close_stub (SF_PRIVATE *psf)
{	int r_nd ; g_container_close_calls ++ ;
	__CPROVER_assert (psf->codec_close == NULL, "the codec hook cannot run again from the container hook") ; /*@C16.codec_hook_cleared_before_container_hook*/
	free (nested_container) ; nested_container = NULL ; return r_nd ;
}

#define MAYBE(field, size)	do { _Bool nd ; if (nd) psf->field = malloc (size) ; } while (0)

void h_psf_close (void)
{	SF_PRIVATE *psf = calloc (1, sizeof (SF_PRIVATE)) ;
	__CPROVER_assume (psf != NULL) ;
	int ret_nd ; g_fclose_ret = ret_nd ;
	MAYBE (header.ptr, 256) ; MAYBE (container_data, 64) ; MAYBE (codec_data, 64) ; MAYBE (interleave, 32) ; MAYBE (dither, 32) ;
	MAYBE (peak_info, 48) ; MAYBE (broadcast_16k, 128) ; MAYBE (loop_info, 32) ; MAYBE (instrument, 64) ; MAYBE (cues, 64) ;
	MAYBE (channel_map, 16) ; MAYBE (format_desc, 16) ; MAYBE (strings.storage, 64) ; MAYBE (rchunks.chunks, sizeof (READ_CHUNK) * 2) ;
	MAYBE (iterator, sizeof (SF_CHUNK_ITERATOR)) ; MAYBE (cart_16k, 128) ;
	{	_Bool have_w ;
		if (have_w)
		{	psf->wchunks.chunks = calloc (NCHUNKS, sizeof (WRITE_CHUNK)) ;
			__CPROVER_assume (psf->wchunks.chunks != NULL) ;
			psf->wchunks.count = NCHUNKS ;
			unsigned used_nd ; __CPROVER_assume (used_nd <= NCHUNKS) ; psf->wchunks.used = used_nd ;
			for (unsigned k = 0 ; k < NCHUNKS ; k++)
				if (k < psf->wchunks.used) { _Bool nd ; if (nd) psf->wchunks.chunks [k].data = malloc (8) ; } ;
			} ;
		} ;
	_Bool hc, hk ;
	if (hc) { psf->codec_close = codec_close_stub ; nested_codec = malloc (4) ; }
	if (hk) { psf->container_close = container_close_stub ; nested_container = malloc (4) ; }
	int r = psf_close (psf) ;
	__CPROVER_assert (g_fclose_calls == 1 && g_rsrc_calls == 1, "descriptor and resource-fork close each ran once") ; /*@C16.descriptors_closed_once*/
	__CPROVER_assert (g_codec_close_calls == (hc ? 1 : 0) && g_container_close_calls == (hk ? 1 : 0), "installed close hooks ran exactly once") ; /*@C16.close_hooks_run_once*/
	__CPROVER_assert (r == g_fclose_ret, "psf_close returns the result of closing the descriptor") ; /*@C16.close_returns_descriptor_close_result*/
	CANARY () ;
	/* --memory-leak-check: no block allocated above (or by the function) is still live here */
}
