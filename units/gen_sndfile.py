"""C05 / C09 / C06 / C08 / C11 / C19: the public wrappers of src/sndfile.c.

sf_read_T, sf_readf_T, sf_write_T, sf_writef_T (T = short,int,float,double) and
sf_seek, each enforced against a contract whose clauses are taken from the
property statements.  The codec/container table is abstracted by the generic
dispatch contracts of spec/dispatch.h (__CPROVER_obeys_contract).  Products
and quotients by the channel count are outside SAT reach when the count is
symbolic, so each unit is instantiated per channel count (enumerated);
everything else (handle state, mode, request length, positions, codec results,
I/O outcomes admitted by the dispatch contracts) is symbolic.
"""

TYPES = {"short": "uint16_t", "int": "uint32_t", "float": "uint32_t", "double": "uint64_t"}
QUICK_CH = [1, 2, 3, 8, 1024]

HEAD = """#include "env_pre.h"
#include "sndfile.c"
#include "ghost.h"
#include "dispatch.h"

size_t g_byte ;
/* input mirrors (replay) */
sf_count_t vin_len, vin_frames, vin_rc, vin_wc, vin_dataend ;
int vin_mode, vin_last_op, vin_have_written, vin_error, vin_null, vin_offset_ok ;

#define CH %(ch)d
#define PSF ((SF_PRIVATE *) sndfile)

int psf_file_valid (SF_PRIVATE *psf)
__CPROVER_requires (__CPROVER_r_ok (psf, sizeof (SF_PRIVATE)))
__CPROVER_assigns ()
__CPROVER_ensures (__CPROVER_return_value == (psf->file.filedes >= 0 ? SF_TRUE : SF_FALSE))
;

/* zero fill; the result is stated for the 8 bytes starting at the arbitrary offset g_byte */
void * psf_memset (void *s, int c, sf_count_t len)
__CPROVER_requires (len >= 0 && len <= 8 * LEN_MAX)
__CPROVER_requires (len == 0 || __CPROVER_w_ok (s, (size_t) len))
__CPROVER_assigns (len > 0: __CPROVER_object_from (s))
__CPROVER_ensures (__CPROVER_return_value == s)
%(memset_ensures)s
;

/* a handle as sf_open returns it (the part the wrappers rely on) */
#define HANDLE_OK	(__CPROVER_is_fresh (sndfile, sizeof (SF_PRIVATE)) \\
	&& PSF->Magick == SNDFILE_MAGICK && PSF->sf.channels == CH \\
	&& 0 <= PSF->sf.frames && PSF->sf.frames <= FRAMES_MAX \\
	&& 0 <= PSF->read_current && PSF->read_current <= FRAMES_MAX \\
	&& 0 <= PSF->write_current && PSF->write_current <= FRAMES_MAX \\
	&& (PSF->file.mode == SFM_READ || PSF->file.mode == SFM_WRITE || PSF->file.mode == SFM_RDWR) \\
%(obeys)s	&& PSF->sf.frames == vin_frames && PSF->read_current == vin_rc && PSF->write_current == vin_wc \\
	&& PSF->file.mode == vin_mode && PSF->last_op == vin_last_op && PSF->have_written == vin_have_written \\
	&& PSF->dataend == vin_dataend && PSF->error == vin_error)

#define FILE_OK		(PSF->virtual_io != SF_FALSE || PSF->file.filedes >= 0)

/* one assigns clause: everything a wrapper may change in the handle */
#define WRAPPER_FRAME	sf_errno, __CPROVER_object_whole (sndfile), __CPROVER_object_whole (&gd)

#define MIRROR_HAVOC()	do { sf_count_t a1, a2, a3, a4, a5 ; int b1, b2, b3, b4, b5 ; size_t c1 ; long long d1 ; \\
	vin_len = a1 ; vin_frames = a2 ; vin_rc = a3 ; vin_wc = a4 ; vin_dataend = a5 ; vin_mode = b1 ; vin_last_op = b2 ; \\
	vin_have_written = b3 ; vin_error = b4 ; vin_null = b5 ; g_byte = c1 ; g_item_bits = d1 ; \\
	g_codec_calls = 0 ; g_seek_calls = 0 ; g_hdr_calls = 0 ; g_codec_ret = -7 ; } while (0)
"""

READ_T = """
/* ITEMS = items requested, RET_ITEMS = items reported */
#define ITEMS		(%(items)s)
#define RET_ITEMS	(__CPROVER_return_value%(retmul)s)
#define VALID_CALL	(sndfile != NULL && FILE_OK && %(n)s > 0 && vin_mode != SFM_WRITE%(align)s)
#define AT_END		(vin_rc >= vin_frames)
#define CAN_READ	(PSF->read_%(T)s != NULL && PSF->seek != NULL)

sf_count_t %(fn)s (SNDFILE *sndfile, %(T)s *ptr, sf_count_t %(n)s)
__CPROVER_requires (sndfile == NULL || HANDLE_OK)
__CPROVER_requires (%(n)s == vin_len && -LEN_MAX <= %(n)s && %(n)s <= LEN_MAX / CH)
__CPROVER_requires (%(n)s <= 0 || __CPROVER_is_fresh (ptr, (size_t) ITEMS * %(SZ)d))
__CPROVER_assigns (sf_errno, __CPROVER_object_whole (&gd); sndfile != NULL: __CPROVER_object_whole (sndfile); %(n)s > 0: __CPROVER_object_whole (ptr))
/* ---- invalid calls (C09) ---- */
__CPROVER_ensures (sndfile == NULL ==> (__CPROVER_return_value == 0 && (%(n)s == 0 || sf_errno == SFE_BAD_SNDFILE_PTR))) /*@C09.null_handle*/
__CPROVER_ensures ((sndfile != NULL && %(n)s != 0 && !FILE_OK) ==> (__CPROVER_return_value == 0 && PSF->error == SFE_BAD_FILE_PTR)) /*@C09.bad_file*/
__CPROVER_ensures ((sndfile != NULL && FILE_OK && %(n)s < 0) ==> (__CPROVER_return_value == 0 && PSF->error == SFE_NEGATIVE_RW_LEN)) /*@C09.negative_len*/
__CPROVER_ensures ((sndfile != NULL && FILE_OK && %(n)s > 0 && vin_mode == SFM_WRITE) ==> (__CPROVER_return_value == 0 && PSF->error == SFE_NOT_READMODE)) /*@C09.read_on_write_handle*/
%(align_clause)s
__CPROVER_ensures ((sndfile != NULL && !VALID_CALL) ==> (PSF->read_current == vin_rc && PSF->write_current == vin_wc && PSF->sf.frames == vin_frames
					&& PSF->last_op == vin_last_op && PSF->have_written == vin_have_written && g_codec_calls == 0 && g_seek_calls == 0 && g_hdr_calls == 0)) /*@C09.invalid_call_changes_nothing*/
__CPROVER_ensures ((sndfile != NULL && VALID_CALL && !AT_END && !CAN_READ) ==> (__CPROVER_return_value == 0 && PSF->error == SFE_UNIMPLEMENTED)) /*@C09.unimplemented*/
/* ---- end of data (C05) ---- */
__CPROVER_ensures ((VALID_CALL && AT_END) ==> (__CPROVER_return_value == 0 && PSF->error == 0 && PSF->read_current == vin_rc && g_codec_calls == 0)) /*@C05.eof_returns_zero_no_error*/ /*@C06.eof_returns_zero_no_error*/
__CPROVER_ensures ((VALID_CALL && AT_END && 0 <= g_idx && g_idx < ITEMS) ==> ptr [g_idx] == 0) /*@C05.eof_zero_fills_request*/
/* ---- normal reads (C05, C06, C08) ---- */
__CPROVER_ensures (0 <= __CPROVER_return_value && __CPROVER_return_value <= %(n)s || (%(n)s < 0 && __CPROVER_return_value == 0)) /*@C05.read_ret_range*/ /*@C15.ret_in_documented_range*/
__CPROVER_ensures ((VALID_CALL && !AT_END && CAN_READ) ==> (RET_ITEMS %% CH == 0)) /*@C05.read_whole_frames*/
__CPROVER_ensures ((VALID_CALL && !AT_END && CAN_READ) ==> (PSF->read_current == vin_rc + RET_ITEMS / CH)) /*@C05.read_position_advances_by_ret*/ /*@C06.read_position_advances_by_ret*/ /*@C08.read_position_advances_by_ret*/ /*@C15.position_advances_by_returned_count*/
__CPROVER_ensures ((VALID_CALL && !AT_END && CAN_READ) ==> (PSF->read_current <= (vin_frames > vin_rc ? vin_frames : vin_rc))) /*@C05.read_never_past_end*/ /*@C06.read_never_past_end*/
__CPROVER_ensures ((VALID_CALL && !AT_END && CAN_READ && RET_ITEMS < ITEMS) ==>
					(PSF->read_current == vin_frames || (g_codec_calls == 1 && g_codec_ret < ITEMS) || (g_codec_calls == 0 && g_seek_calls == 1 && PSF->error != 0))) /*@C05.read_short_only_at_end_or_io*/ /*@C15.read_short_only_at_end_or_io*/
__CPROVER_ensures ((VALID_CALL && !AT_END && CAN_READ && 0 <= g_idx && g_idx < RET_ITEMS) ==> SAME_BITS (ptr [g_idx], %(UT)s) == (%(UT)s) g_item_bits) /*@C05.read_items_are_the_stream_items*/ /*@C06.read_items_are_the_stream_items*/
__CPROVER_ensures ((VALID_CALL && !AT_END && CAN_READ) ==> g_codec_calls <= 1) /*@C05.read_one_codec_call*/
__CPROVER_ensures ((VALID_CALL && !AT_END && CAN_READ && g_codec_calls == 1 && vin_last_op != SFM_READ) ==>
					(g_seek_calls == 1 && g_seek_arg == vin_rc && g_seek_mode == SFM_READ)) /*@C08.read_reseeks_after_write*/
__CPROVER_ensures ((VALID_CALL && !AT_END && CAN_READ && g_codec_calls == 1 && vin_last_op == SFM_READ) ==> g_seek_calls == 0) /*@C06.sequential_read_no_seek*/
__CPROVER_ensures ((VALID_CALL && !AT_END && CAN_READ && g_codec_calls == 1) ==> PSF->last_op == SFM_READ) /*@C08.read_sets_last_op*/
__CPROVER_ensures (sndfile != NULL ==> (PSF->write_current == vin_wc && PSF->sf.frames == vin_frames && PSF->have_written == vin_have_written && g_hdr_calls == 0)) /*@C08.read_leaves_write_side*/
__CPROVER_ensures ((VALID_CALL && g_codec_calls == 1 && g_codec_ret == ITEMS && g_seek_calls == 0) ==> PSF->error == 0) /*@C09.success_leaves_no_error*/
;

void h_unit (void)
{	SNDFILE *sndfile ; %(T)s *ptr ; sf_count_t n ;
	%(keep)s
	GHOST_HAVOC () ; MIRROR_HAVOC () ;
	sf_count_t r = %(fn)s (sndfile, ptr, n) ;
	REACH (vin_len > 0 && vin_rc >= vin_frames && vin_mode == SFM_READ && sndfile != NULL && r == 0, "end of data case") ;
	REACH (r > 0 && g_codec_calls == 1 && r < vin_len, "short read") ;
	REACH (r > 0 && r == vin_len, "full read") ;
	REACH (vin_len < 0, "negative length") ;
	CANARY () ;
}
"""

WRITE_T = """
#define ITEMS		(%(items)s)
#define RET_ITEMS	(__CPROVER_return_value%(retmul)s)
#define VALID_CALL	(sndfile != NULL && FILE_OK && %(n)s > 0 && vin_mode != SFM_READ%(align)s)
#define CAN_WRITE	(PSF->write_%(T)s != NULL && PSF->seek != NULL)
#define WROTE		(g_codec_calls == 1)

sf_count_t %(fn)s (SNDFILE *sndfile, const %(T)s *ptr, sf_count_t %(n)s)
__CPROVER_requires (sndfile == NULL || HANDLE_OK)
__CPROVER_requires (%(n)s == vin_len && -LEN_MAX <= %(n)s && %(n)s <= LEN_MAX / CH)
__CPROVER_requires (%(n)s <= 0 || __CPROVER_is_fresh (ptr, (size_t) ITEMS * %(SZ)d))
__CPROVER_assigns (sf_errno, __CPROVER_object_whole (&gd); sndfile != NULL: __CPROVER_object_whole (sndfile))
/* ---- invalid calls (C09) ---- */
__CPROVER_ensures (sndfile == NULL ==> (__CPROVER_return_value == 0 && (%(n)s == 0 || sf_errno == SFE_BAD_SNDFILE_PTR))) /*@C09.null_handle*/
__CPROVER_ensures ((sndfile != NULL && %(n)s != 0 && !FILE_OK) ==> (__CPROVER_return_value == 0 && PSF->error == SFE_BAD_FILE_PTR)) /*@C09.bad_file*/
__CPROVER_ensures ((sndfile != NULL && FILE_OK && %(n)s < 0) ==> (__CPROVER_return_value == 0 && PSF->error == SFE_NEGATIVE_RW_LEN)) /*@C09.negative_len*/
__CPROVER_ensures ((sndfile != NULL && FILE_OK && %(n)s > 0 && vin_mode == SFM_READ) ==> (__CPROVER_return_value == 0 && PSF->error == SFE_NOT_WRITEMODE)) /*@C09.write_on_read_handle*/
%(align_clause)s
__CPROVER_ensures ((sndfile != NULL && !VALID_CALL) ==> (PSF->read_current == vin_rc && PSF->write_current == vin_wc && PSF->sf.frames == vin_frames
					&& PSF->last_op == vin_last_op && PSF->have_written == vin_have_written && PSF->dataend == vin_dataend
					&& g_codec_calls == 0 && g_seek_calls == 0 && g_hdr_calls == 0)) /*@C09.invalid_call_changes_nothing*/
__CPROVER_ensures ((sndfile != NULL && VALID_CALL && !CAN_WRITE) ==> (__CPROVER_return_value == 0 && PSF->error == SFE_UNIMPLEMENTED)) /*@C09.unimplemented*/
/* ---- writes (C05, C08, C04, C11) ---- */
__CPROVER_ensures (0 <= __CPROVER_return_value && __CPROVER_return_value <= %(n)s || (%(n)s < 0 && __CPROVER_return_value == 0)) /*@C05.write_ret_range*/ /*@C15.ret_in_documented_range*/
__CPROVER_ensures ((VALID_CALL && CAN_WRITE && WROTE) ==> RET_ITEMS %% CH == 0) /*@C05.write_whole_frames*/
__CPROVER_ensures ((VALID_CALL && CAN_WRITE && WROTE) ==> (PSF->write_current == vin_wc + RET_ITEMS / CH)) /*@C05.write_position_advances_by_ret*/ /*@C08.write_position_advances_by_ret*/ /*@C04.frames_accepted_are_counted*/ /*@C15.position_advances_by_returned_count*/
__CPROVER_ensures ((VALID_CALL && CAN_WRITE && !WROTE) ==> (__CPROVER_return_value == 0 && PSF->write_current == vin_wc && PSF->sf.frames == vin_frames)) /*@C05.failed_write_changes_no_position*/ /*@C15.failed_write_changes_no_position*/
__CPROVER_ensures ((VALID_CALL && CAN_WRITE && WROTE) ==> (PSF->sf.frames == (PSF->write_current > vin_frames ? PSF->write_current : vin_frames))) /*@C08.frames_is_max_of_old_and_write_position*/ /*@C04.frames_is_max_of_old_and_write_position*/
__CPROVER_ensures ((VALID_CALL && CAN_WRITE && WROTE && RET_ITEMS < ITEMS) ==> g_codec_ret < ITEMS) /*@C05.write_short_only_when_io_fails*/
__CPROVER_ensures ((VALID_CALL && CAN_WRITE && WROTE) ==> (PSF->have_written == SF_TRUE && PSF->last_op == SFM_WRITE)) /*@C04.have_written_latch*/
__CPROVER_ensures ((VALID_CALL && CAN_WRITE && WROTE && vin_last_op != SFM_WRITE) ==> (g_seek_calls == 1 && g_seek_arg == vin_wc && g_seek_mode == SFM_WRITE)) /*@C08.write_reseeks_after_read*/
__CPROVER_ensures ((VALID_CALL && CAN_WRITE && WROTE && vin_last_op == SFM_WRITE) ==> g_seek_calls == 0) /*@C07.sequential_write_no_seek*/
__CPROVER_ensures ((VALID_CALL && CAN_WRITE && WROTE) ==> g_hdr_calls == ((vin_have_written == SF_FALSE && PSF->write_header != NULL) ? 1 : 0) + ((PSF->auto_header && PSF->write_header != NULL) ? 1 : 0)) /*@C11.header_written_first_time_and_in_auto_mode*/
__CPROVER_ensures (sndfile != NULL ==> PSF->read_current == vin_rc) /*@C08.write_leaves_read_position*/
__CPROVER_ensures ((VALID_CALL && WROTE && g_codec_ret == ITEMS && g_seek_calls == 0 && g_hdr_calls == 0) ==> PSF->error == 0) /*@C09.success_leaves_no_error*/
;

void h_unit (void)
{	SNDFILE *sndfile ; const %(T)s *ptr ; sf_count_t n ;
	%(keep)s
	GHOST_HAVOC () ; MIRROR_HAVOC () ;
	sf_count_t r = %(fn)s (sndfile, ptr, n) ;
	REACH (r > 0 && g_codec_calls == 1 && r < vin_len, "short write") ;
	REACH (r > 0 && r == vin_len, "full write") ;
	REACH (vin_len < 0, "negative length") ;
	REACH (g_hdr_calls == 2, "first write in auto-header mode") ;
	CANARY () ;
}
"""


def rw_unit(kind, T, framesv, ch, tier):
    fn = "sf_%s%s_%s" % (kind, "f" if framesv else "", T)
    n = "frames" if framesv else "len"
    d = dict(fn=fn, T=T, UT=TYPES[T], n=n, ch=ch, SZ={"short": 2, "int": 4, "float": 4, "double": 8}[T],
             items=("(frames * CH)" if framesv else "len"),
             retmul=(" * CH" if framesv else ""),
             align=("" if framesv else " && len % CH == 0"))
    SZ = {"short": 2, "int": 4, "float": 4, "double": 8}[T]
    # stated on the element type of this wrapper (a byte-wise clause over a buffer of symbolic size makes CBMC
    # lower byte_extract over an unbounded array: measured out of memory); the byte-wise contract is enforced on
    # the real psf_memset in the common.c unit
    d["memset_ensures"] = ("__CPROVER_requires (c == 0 && len %% sizeof (%s) == 0)\n"
                           "__CPROVER_ensures ((0 <= g_idx && g_idx < len / (sf_count_t) sizeof (%s)) ==> ((%s *) s) [g_idx] == 0)"
                           % (T, T, T))
    ptrs = [("%s_%s" % (kind, T), "codec_%s_%s_c" % (kind, T)), ("seek", "codec_seek_c")]
    if kind == "write":
        ptrs.append(("write_header", "container_write_header_c"))
    d["obeys"] = "".join("\t&& (PSF->%s == NULL || __CPROVER_obeys_contract (PSF->%s, %s)) \\\n" % (f, f, c) for f, c in ptrs)
    d["keep"] = "void *keep_c [] = { %s } ; (void) keep_c ;" % ", ".join("(void *) " + c for f, c in ptrs)
    if framesv:
        d["align_clause"] = ""
    else:
        err = "SFE_BAD_READ_ALIGN" if kind == "read" else "SFE_BAD_WRITE_ALIGN"
        modeok = "vin_mode != SFM_WRITE" if kind == "read" else "vin_mode != SFM_READ"
        d["align_clause"] = ("__CPROVER_ensures ((sndfile != NULL && FILE_OK && len > 0 && %s && len %% CH != 0) ==> "
                             "(__CPROVER_return_value == 0 && PSF->error == %s)) /*@C09.misaligned_count*/" % (modeok, err))
    text = (HEAD % d) + ((READ_T if kind == "read" else WRITE_T) % d)
    props = ["C05", "C09", "C08", "C15"] + (["C19"] if ch == 2 else []) + (["C06"] if kind == "read" else ["C04", "C07", "C11"])
    return {"name": "sndfile.%s.ch%d" % (fn, ch), "props": props, "harness_text": text,
            "template": "units/gen_sndfile.py", "entry": "h_unit", "enforce": fn, "function": "sndfile.c:" + fn,
            "replace": ["psf_memset", "psf_file_valid"], "timeout": 600, "tier": tier,
            "kind": "enumerated(channels=%d)" % ch, "defines": [], "cbmc_flags": ["--object-bits", "9"],
            "replay_driver": "sndfile_rw.c", "replay_link": "all", "replay_exclude": ["sndfile.c"],
            "replay_defines": ["-DFN=%s" % fn, "-DT=%s" % T, "-DCH=%d" % ch, "-DKIND_%s" % kind.upper(),
                               "-DFRAMESV=%d" % (1 if framesv else 0)],
            "trusted": ["generic dispatch contracts (spec/dispatch.h) stand for psf->read_*/write_*/seek/write_header; "
                        "discharged for every implementation that has an enforcement unit (see C05 codec units)"]}


def units():
    U = [{"name": "sndfile.sf_seek", "props": ["C06", "C08", "C09", "C19", "C15"], "harness": "sndfile_seek.harness.c",
          "entry": "h_seek", "enforce": "sf_seek", "function": "sndfile.c:sf_seek", "replace": ["psf_file_valid"],
          "cbmc_flags": ["--object-bits", "9"], "timeout": 600, "replay_driver": "sndfile_seek.c",
          "replay_link": "all", "replay_exclude": ["sndfile.c"],
          "trusted": ["generic dispatch contract codec_seek_c stands for psf->seek"]}]
    U.append({"name": "sndfile.sf_error_number", "props": ["C09"], "harness": "sndfile_error.harness.c", "entry": "h_error_number",
              "dfcc": False, "function": "sndfile.c:sf_error_number", "defines": ["-DUNIT_ERROR_NUMBER_PLAIN"],
              "cbmc_flags": ["--object-bits", "12", "--unwind", "300"], "timeout": 900, "kind": "proof (complete unwinding over the constant message table)"})
    for nm, fn, extra in (
                          ("sf_error", "sf_error", {"replace": ["psf_file_valid"], "cbmc_flags": ["--object-bits", "9"]}),):
        u = {"name": "sndfile." + nm, "props": ["C09", "C19"], "harness": "sndfile_error.harness.c", "entry": "h_" + nm[3:],
             "enforce": fn, "function": "sndfile.c:" + fn, "timeout": 600,
             "trusted": ["E1 snprintf model", "printf (CBMC built-in)"]}
        u.update(extra)
        U.append(u)
    for kind in ("write", "read"):
        for ch, bw in ((2, 2), (3, 3), (1, 1), (2, 4)):
            U.append({"name": "sndfile.sf_%s_raw.ch%d.bw%d" % (kind, ch, bw),
                      "props": ["C05", "C09", "C08", "C15"] + (["C04"] if kind == "write" else ["C06"]),
                      "harness": "sndfile_raw.harness.c", "entry": "h_raw", "enforce": "sf_%s_raw" % kind,
                      "function": "sndfile.c:sf_%s_raw" % kind, "replace": ["psf_file_valid", "psf_memset", "psf_fread", "psf_fwrite"],
                      "defines": ["-DUNIT_%s_RAW" % kind.upper(), "-DCH=%d" % ch, "-DBYTEW=%d" % bw], "cbmc_flags": ["--object-bits", "9"],
                      "timeout": 600, "kind": "enumerated(channels=%d, bytewidth=%d)" % (ch, bw),
                      "tier": "quick" if (ch, bw) in ((2, 2), (3, 3)) else "thorough"})
    for nm in ("open_virtual", "open_fd"):
        U.append({"name": "sndfile.sf_" + nm, "props": ["C14", "C16", "C09", "C19"], "harness": "sndfile_open.harness.c", "entry": "h_" + nm,
                  "enforce": "sf_" + nm, "function": "sndfile.c:sf_" + nm,
                  "replace": ["psf_allocate", "psf_init_files", "psf_set_file", "psf_is_pipe", "psf_ftell", "psf_open_file"],
                  "cbmc_flags": ["--object-bits", "9"], "timeout": 600,
                  "pre_gi_flags": ["--generate-function-body", "psf_copy_filename", "--generate-function-body-options", "nondet-return"],
                  "trusted": ["psf_allocate / psf_init_files / psf_set_file contracts (file_io.c, common.c)", "E1 snprintf model", "E3 close model"]})
    callee = ["verif_log_printf", "psf_file_valid", "sf_version_string", "psf_get_format_simple", "psf_get_format_major",
              "psf_get_format_subtype", "psf_get_format_info", "psf_get_format_simple_count", "psf_get_format_major_count",
              "psf_get_format_subtype_count", "psf_calc_signal_max", "psf_calc_max_all_channels", "psf_get_signal_max",
              "psf_get_max_all_channels", "broadcast_var_set", "broadcast_var_get", "cart_var_set", "cart_var_get",
              "psf_get_cues", "psf_cues_dup", "psf_instrument_alloc", "dither_init", "float32_init", "double64_init",
              "sf_seek", "psf_fseek", "psf_ftruncate"]
    # one unit per command id of the public header (parsed from include/sndfile.h on every run) with the id
    # concrete and everything else symbolic, plus a sample of undefined ids
    import os, re as _re
    hdr = open(os.path.join(os.environ.get("VERIF_REPO", "/repo"), "include", "sndfile.h"), errors="replace").read()
    ids = _re.findall(r"^\s*(SFC_[A-Z0-9_]+)\s*=\s*0x[0-9A-Fa-f]+", hdr, _re.M)
    ids = [i for i in dict.fromkeys(ids)]
    undefined = [("undef_0", "0"), ("undef_7777", "0x7777"), ("undef_neg1", "(-1)"), ("undef_1003", "0x1003"), ("undef_max", "0x7fffffff")]
    for nm, val in [(i, i) for i in ids] + undefined:
        u = dict({"name": "sndfile.sf_command", "props": ["C17", "C09", "C11", "C12"], "harness": "sndfile_command.harness.c",
              "entry": "h_command", "enforce": "sf_command", "function": "sndfile.c:sf_command", "replace": callee,
              "gi_flags": [], "cbmc_flags": ["--object-bits", "9"], "timeout": 1200, "mem_gb": 16,
              "loops": {"sf_command": [{"loop_id": 0, "assigns_locals": True,
                        "invariants": "__CPROVER_same_object (iptr, data) && (int *) data <= iptr && iptr <= (int *) data + psf->sf.channels",
                        "decreases": "(int *) data + psf->sf.channels - iptr"}]},
              "trusted": ["E1 snprintf/strlen models (spec/env_stubs.h, units/sndfile_command.harness.c)",
                          "psf_log_printf (variadic, cannot be instrumented): assumed to write only psf->parselog",
                          "callee contracts of command.c / broadcast.c / cart.c / cues: bytes of `data` touched <= datasize (enforced where a unit exists)"]})
        u["name"] = "sndfile.sf_command." + nm
        u["defines"] = ["-DCMD_FIXED=%s" % val]
        u["timeout"] = 600
        u["mem_gb"] = 8
        u["kind"] = "proof (command id enumerated from the public header; datasize, data, handle state symbolic)" if nm == val \
            else "enumerated(sample of undefined command ids)"
        u["backend"] = "kissat"
        if nm == "SFC_FILE_TRUNCATE":
            u["props"] = ["C17", "C09", "C11", "C12", "C08"]
        if nm in ("SFC_SET_VBR_ENCODING_QUALITY", "SFC_SET_OGG_PAGE_LATENCY_MS"):
            u["enforce_rec"] = True
        if nm in ("SFC_GET_CHANNEL_MAP_INFO", "SFC_SET_CHANNEL_MAP_INFO", "SFC_SET_ADD_PEAK_CHUNK", "SFC_CALC_MAX_ALL_CHANNELS",
                  "SFC_CALC_NORM_MAX_ALL_CHANNELS", "SFC_GET_MAX_ALL_CHANNELS"):
            # sizes proportional to the channel count: enumerate it (symbolic-size memcpy/calloc are out of reach)
            if nm == "SFC_SET_CHANNEL_MAP_INFO":
                for ch in (2, 3):
                    for dsn, ds in (("exact", 4 * ch), ("short", 4 * ch - 1), ("long", 4 * ch + 4), ("zero", 0)):
                        v = dict(u)
                        v["name"] = u["name"] + ".ch%d.%s" % (ch, dsn)
                        v["defines"] = u["defines"] + ["-DFIX_CH=%d" % ch, "-DDATASIZE_FIXED=%d" % ds]
                        v["kind"] = "enumerated(channels=%d, datasize=%d); validation loop unwound completely" % (ch, ds)
                        v["tier"] = "quick" if ch == 2 else "thorough"
                        v["loops"] = {}
                        # free()/malloc() make DFCC's object sets (2^object-bits entries) symbolic: keep object bits minimal
                        v["cbmc_flags"] = ["--object-bits", "9", "--unwindset", "sf_command.0:%d" % (ch + 2)]
                        v["timeout"] = 1200
                        U.append(v)
                continue
            for ch in (1, 2, 3, 8, 1024):
                v = dict(u)
                v["name"] = u["name"] + ".ch%d" % ch
                v["defines"] = u["defines"] + ["-DFIX_CH=%d" % ch, "-DMODEL_MEMCPY"]
                v["kind"] = "enumerated(channels=%d)" % ch
                v["tier"] = "quick" if ch in (2, 3) else "thorough"
                U.append(v)
            continue
        U.append(u)
    for kind in ("read", "write"):
        for T in TYPES:
            for framesv in (False, True):
                for ch in QUICK_CH:
                    # quick: every wrapper at channels 2; short wrappers over the whole quick channel set
                    tier = "quick" if (ch == 2 or (T == "short" and ch in (1, 3, 1024)) or (T == "float" and ch == 3)) else "thorough"
                    U.append(rw_unit(kind, T, framesv, ch, tier))
    for nm, fn, d, props, repl in (("sf_close", "sf_close", "U_CLOSE", ["C16", "C09"], ["psf_close", "psf_file_valid"]),
                                   ("sf_set_string", "sf_set_string", "U_SET_STRING", ["C12", "C09"], ["psf_set_string", "psf_file_valid"]),
                                   ("sf_get_string", "sf_get_string", "U_GET_STRING", ["C12", "C09"], ["psf_get_string"]),
                                   ("sf_set_chunk", "sf_set_chunk", "U_SET_CHUNK", ["C13", "C09"], ["psf_file_valid"]),
                                   ("sf_get_chunk_iterator", "sf_get_chunk_iterator", "U_GET_ITERATOR", ["C13", "C09"], ["psf_get_chunk_iterator", "psf_file_valid"]),
                                   ("sf_get_chunk_size", "sf_get_chunk_size", "U_GET_SIZE", ["C13", "C09"], ["psf_file_valid"]),
                                   ("sf_get_chunk_data", "sf_get_chunk_data", "U_GET_DATA", ["C13", "C09"], ["psf_file_valid"])):
        U.append({"name": "sndfile." + nm, "props": props, "harness": "sndfile_api.harness.c", "entry": "h_api", "enforce": fn, "function": "sndfile.c:" + fn,
                  "defines": ["-D" + d], "replace": repl, "cbmc_flags": ["--object-bits", "9"], "timeout": 600,
                  "trusted": ["callee / hook contracts record the forwarded arguments (ghost); their behaviour: strings, chunk and close units"]})
    return U


NOT_DECIDED = {
    "C05": ["requests above 2^28 items per call (contract bound LEN_MAX)",
            "block codecs' values (the generic dispatch contract speaks about counts, bounds and the ghost stream item)"],
}
ASSUMPTIONS = {
    "C05": ["len <= 2^28 items per call, frames and positions <= 2^47 (keeps sf_count_t arithmetic overflow free; overflow inside is an obligation)",
            "channel count enumerated: quick {1,2,3,8,1024} subsets, thorough the full set {1,2,3,8,1024} for all 16+16 wrappers"],
}
