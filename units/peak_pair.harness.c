/* C18 (C04): the PEAK chunk of WAV-like files, writer against reader, through the REAL code:
** wavlike_write_peak_chunk -> bytes in the header cache -> wavlike_read_peak_chunk, both on the real
** psf_binheader_writef / psf_binheader_readf (src/common.c).  Plain harness; channel count and byte order enumerated,
** peak values and positions symbolic.  The portable float serialisers are stand-ins equal to the native
** representation (that is what units ieee.float32_* prove for every normal value; zero maps to zero), peak values are
** zero or normal single precision numbers.  Claim: every channel's peak value (as the float the chunk stores) and
** position (as the 32 bit field stores it) come back unchanged, in channel order.
*/
#include "env_pre.h"
#define psf_log_printf(...)		verif_nolog ()
#include "wavlike.c"
void verif_nolog (void) { }
#include "ghost.h"
#include "env_stubs.h"

#ifndef CH
#define CH 2
#endif
#ifndef ENDIAN
#define ENDIAN SF_ENDIAN_LITTLE
#endif

time_t time (time_t *t) { time_t nd ; return nd ; }
/* stand-ins: native representation (units ieee.float32_write / ieee.float32_read) */
void float32_le_write (float in, unsigned char *out) { union { float f ; unsigned char b [4] ; } u ; u.f = in ; out [0] = u.b [0] ; out [1] = u.b [1] ; out [2] = u.b [2] ; out [3] = u.b [3] ; }
void float32_be_write (float in, unsigned char *out) { union { float f ; unsigned char b [4] ; } u ; u.f = in ; out [0] = u.b [3] ; out [1] = u.b [2] ; out [2] = u.b [1] ; out [3] = u.b [0] ; }
float float32_le_read (const unsigned char *c) { union { float f ; unsigned char b [4] ; } u ; u.b [0] = c [0] ; u.b [1] = c [1] ; u.b [2] = c [2] ; u.b [3] = c [3] ; return u.f ; }
float float32_be_read (const unsigned char *c) { union { float f ; unsigned char b [4] ; } u ; u.b [0] = c [3] ; u.b [1] = c [2] ; u.b [2] = c [1] ; u.b [3] = c [0] ; return u.f ; }

#define HDR 64
static unsigned char hw [HDR], hr [HDR] ;
static SF_PRIVATE W, R ;
static struct { PEAK_INFO info ; PEAK_POS pos [CH] ; } wpk ;

void h_peak_pair (void)
{	float v [CH] ; uint32_t p [CH] ;
	for (int c = 0 ; c < CH ; c++)
	{	union { float f ; uint32_t u ; } x ; x.f = v [c] ;
		__CPROVER_assume (v [c] == 0.0f ? x.u == 0 : (v [c] > 0.0f && ((x.u >> 23) & 0xff) != 0 && ((x.u >> 23) & 0xff) != 0xff)) ;	/* +0 or a positive normal number */
		wpk.info.peaks [c].value = v [c] ; wpk.info.peaks [c].position = p [c] ;
		} ;
	W.header.ptr = hw ; W.header.len = HDR ; W.sf.channels = CH ; W.rwf_endian = ENDIAN ; W.peak_info = &wpk.info ;
	wavlike_write_peak_chunk (&W) ;
	__CPROVER_assert (W.header.indx == 8 + (sf_count_t) WAVLIKE_PEAK_CHUNK_SIZE (CH), "chunk has the length its size field announces") ; /*@C18.peak_chunk_length*/

	for (int k = 0 ; k < HDR ; k++) hr [k] = hw [k] ;
	R.header.ptr = hr ; R.header.len = HDR ; R.header.end = W.header.indx ; R.header.indx = 8 ;		/* the chunk walker has consumed marker and size */
	R.sf.channels = CH ; R.rwf_endian = ENDIAN ; R.virtual_io = SF_TRUE ;
	int r = wavlike_read_peak_chunk (&R, WAVLIKE_PEAK_CHUNK_SIZE (CH)) ;
	__CPROVER_assert ((r == 0 && R.peak_info != NULL) || r == SFE_MALLOC_FAILED, "reader accepts the chunk the writer produced (unless its allocation fails)") ; /*@C18.peak_chunk_reopens*/
	REACH (r == 0, "chunk parsed") ;
	if (r == 0 && R.peak_info != NULL)
		for (int c = 0 ; c < CH ; c++)
		{	__CPROVER_assert (R.peak_info->peaks [c].value == (double) v [c], "peak value of every channel comes back") ; /*@C18.peak_value_round_trips*/
			__CPROVER_assert (R.peak_info->peaks [c].position == (sf_count_t) p [c], "peak position of every channel comes back") ; /*@C18.peak_position_round_trips*/
			} ;
	free (R.peak_info) ;
	CANARY () ;
}
