"""C01 (C20): inverse-pair lemmas over the REAL conversion kernels of src/pcm.c and the byte-order helpers of
src/sfendian.h: for every (caller type, stored width) pair the property calls lossless, the read kernel applied to
what the write kernel stored returns the caller's value bit for bit -- for every value of the type (full-domain SAT,
no loop beyond the two-element arrays used).  Together with the kernel units (every kernel applies its element rule to
each element, any count) and the wrapper/implementation units (every item is handed through exactly once, in order)
this is the sample-data part of the round trip; headers, block codecs (ALAC, DWVW, DPCM, SDS, PAF) are not."""

PAIRS = [
    # (caller type, writer, reader, stored type, condition on the value, text)
    ("short", "s2sc_array", "sc2s_array", "signed char", "(x & 0xff) == 0", "short with low 8 bits zero <-> PCM_S8"),
    ("short", "s2uc_array", "uc2s_array", "unsigned char", "(x & 0xff) == 0", "short with low 8 bits zero <-> PCM_U8"),
    ("short", "s2let_array", "let2s_array", "tribyte", "1", "short <-> PCM_24 little endian"),
    ("short", "s2bet_array", "bet2s_array", "tribyte", "1", "short <-> PCM_24 big endian"),
    ("short", "s2lei_array", "lei2s_array", "int", "1", "short <-> PCM_32 little endian"),
    ("short", "s2bei_array", "bei2s_array", "int", "1", "short <-> PCM_32 big endian"),
    ("int", "i2sc_array", "sc2i_array", "signed char", "(x & 0xffffff) == 0", "int with low 24 bits zero <-> PCM_S8"),
    ("int", "i2uc_array", "uc2i_array", "unsigned char", "(x & 0xffffff) == 0", "int with low 24 bits zero <-> PCM_U8"),
    ("int", "i2bes_array", "bes2i_array", "short", "(x & 0xffff) == 0", "int with low 16 bits zero <-> PCM_16 big endian"),
    ("int", "i2les_array", "les2i_array", "short", "(x & 0xffff) == 0", "int with low 16 bits zero <-> PCM_16 little endian"),
    ("int", "i2let_array", "let2i_array", "tribyte", "(x & 0xff) == 0", "int with low 8 bits zero <-> PCM_24 little endian"),
    ("int", "i2bet_array", "bet2i_array", "tribyte", "(x & 0xff) == 0", "int with low 8 bits zero <-> PCM_24 big endian"),
]
SWAPS = [("short", "endswap_short_array", "endswap_short_copy"), ("int", "endswap_int_array", "endswap_int_copy"),
         ("int64_t", "endswap_int64_t_array", "endswap_int64_t_copy")]


def units():
    h = ['#include "env_pre.h"', '#include "pcm.c"', '#include "ghost.h"', "", "void h_pairs (void)", "{"]
    for k, (T, W, R, S, cond, text) in enumerate(PAIRS):
        h.append("	{	%s x [2], y [2] ; %s st [2] ; %s a_nd, b_nd ; x [0] = a_nd ; x [1] = b_nd ;" % (T, S, T))
        h.append("		%s (x, st, 2) ; %s (st, 2, y) ;" % (W, R))
        h.append("		{ %s x = a_nd ; if (%s) __CPROVER_assert (y [0] == a_nd, \"%s: element 0 read back bit exact\") ; } /*@C01.%s_then_%s_is_identity*/"
                 % (T, cond, text, W, R))
        h.append("		{ %s x = b_nd ; if (%s) __CPROVER_assert (y [1] == b_nd, \"%s: element 1 read back bit exact\") ; } /*@C01.%s_then_%s_is_identity*/"
                 % (T, cond, text, W, R))
        h.append("		} ;")
    for T, A, C in SWAPS:
        h.append("	{	%s v [2], w [2], o0, o1 ; %s a_nd, b_nd ; v [0] = a_nd ; v [1] = b_nd ; o0 = a_nd ; o1 = b_nd ;" % (T, T))
        h.append("		%s (v, 2) ; %s (w, v, 2) ;" % (A, C))
        h.append("		__CPROVER_assert (w [0] == o0 && w [1] == o1, \"%s then %s is the identity\") ; /*@C01.byte_swap_twice_is_identity*/ /*@C20.byte_swap_is_an_involution*/" % (A, C))
        h.append("		%s (v, 2) ;" % A)
        h.append("		__CPROVER_assert (v [0] == o0 && v [1] == o1, \"%s twice is the identity\") ; /*@C01.byte_swap_twice_is_identity*/ /*@C20.byte_swap_is_an_involution*/" % A)
        if T == "short":
            h.append("		%s (v, 1) ; __CPROVER_assert ((unsigned short) v [0] == (unsigned short) ((((unsigned short) o0) << 8) | (((unsigned short) o0) >> 8)), \"16 bit swap exchanges the two bytes\") ; /*@C20.byte_swap_16_definition*/" % A)
        if T == "int":
            h.append("		%s (v, 1) ; { unsigned u = (unsigned) o0 ; __CPROVER_assert ((unsigned) v [0] == ((u << 24) | ((u << 8) & 0xff0000u) | ((u >> 8) & 0xff00u) | (u >> 24)), \"32 bit swap reverses the four bytes\") ; } /*@C20.byte_swap_32_definition*/" % A)
        if T == "int64_t":
            h.append("		%s (v, 1) ; { uint64_t u = (uint64_t) o0, r = 0 ; for (int k = 0 ; k < 8 ; k++) r |= ((u >> (8 * k)) & 0xff) << (8 * (7 - k)) ; __CPROVER_assert ((uint64_t) v [0] == r, \"64 bit swap reverses the eight bytes\") ; } /*@C20.byte_swap_64_definition*/" % A)
        h.append("		} ;")
    h += ["	CANARY () ;", "}", ""]
    aiff_h = """#include "env_pre.h"
#define psf_log_printf(...)		verif_nolog ()
#include "aiff.c"
void verif_nolog (void) { }
#include "ghost.h"

/* C04: the AIFF COMM chunk stores the sample rate as an 80 bit extended float.  The writer's encoder followed by the
** reader's decoder is the identity for every rate the pair supports (1 .. 2^30 - 1). */
void h_aiff_rate (void)
{	INPUT (uint32_t, rate) ;
	uint8_t bytes [10] = { 0 } ;
	__CPROVER_assume (rate >= 1 && rate < 0x40000000u) ;
	uint2tenbytefloat (rate, bytes) ;
	__CPROVER_assert (tenbytefloat2int (bytes) == (int) rate, "80 bit float sample rate: decode (encode (rate)) == rate") ; /*@C04.aiff_sample_rate_field_round_trips*/
	CANARY () ;
}
"""
    extra = [{"name": "pairs.aiff_sample_rate", "props": ["C04"], "harness_text": aiff_h, "template": "units/gen_pairs.py", "entry": "h_aiff_rate", "dfcc": False,
              "function": "aiff.c:uint2tenbytefloat, tenbytefloat2int", "cbmc_flags": ["--unwind", "34", "--object-bits", "9"], "timeout": 600,
              "self_replay": True, "inputs": ["rate"], "replay_link": "all", "replay_exclude": ["aiff.c"],
              "kind": "proof(full domain 1 .. 2^30 - 1; the normalisation loop unwound completely)", "trusted": []}]
    # byte-order helpers on arrays of any length (inductive loop contracts, ghost element): the frame contracts the float32.c /
    # double64.c / pcm.c implementation units assume for them, plus the element rule
    SW = {"short": ("2", "((short) ((((unsigned short) (V)) << 8) | (((unsigned short) (V)) >> 8)))"),
          "int": ("4", "((int) ((((unsigned) (V)) << 24) | ((((unsigned) (V)) << 8) & 0xff0000u) | ((((unsigned) (V)) >> 8) & 0xff00u) | (((unsigned) (V)) >> 24)))"),
          "int64_t": ("8", "((long) (((((unsigned long) (V)) & 0xffULL) << 56) | ((((unsigned long) (V)) & 0xff00ULL) << 40) | ((((unsigned long) (V)) & 0xff0000ULL) << 24) | ((((unsigned long) (V)) & 0xff000000ULL) << 8) | "
                             "((((unsigned long) (V)) >> 8) & 0xff000000ULL) | ((((unsigned long) (V)) >> 24) & 0xff0000ULL) | ((((unsigned long) (V)) >> 40) & 0xff00ULL) | (((unsigned long) (V)) >> 56)))")}
    for T, (sz, rule) in SW.items():
        for kind in ("array", "copy"):
            fn = "endswap_%s_%s" % (T, kind)
            if kind == "array":
                sig, req, asg, call = "%s *ptr, int len" % T, "__CPROVER_is_fresh (ptr, (size_t) len * %s)" % sz, "__CPROVER_object_whole (ptr)", "ptr, len"
                pre = "((0 <= g_idx && g_idx < len) ==> ptr [g_idx] == vin_v)"
                post = "((0 <= g_idx && g_idx < len) ==> ptr [g_idx] == %s)" % rule.replace("V", "vin_v")
                inv = "0 <= i && i <= len && ((0 <= g_idx && g_idx < len) ==> ptr [g_idx] == (g_idx < i ? %s : vin_v))" % rule.replace("V", "vin_v")
                decl = "%s *ptr ; int len ;" % T
            else:
                sig, req, asg, call = "%s *dest, const %s *src, int len" % (T, T), "__CPROVER_is_fresh (dest, (size_t) len * %s) && __CPROVER_is_fresh (src, (size_t) len * %s)" % (sz, sz), "__CPROVER_object_whole (dest)", "dest, src, len"
                pre = "((0 <= g_idx && g_idx < len) ==> src [g_idx] == vin_v)"
                post = "((0 <= g_idx && g_idx < len) ==> (dest [g_idx] == %s && src [g_idx] == vin_v))" % rule.replace("V", "vin_v")
                inv = "0 <= i && i <= len && ((0 <= g_idx && g_idx < i && g_idx < len) ==> dest [g_idx] == %s)" % rule.replace("V", "vin_v")
                decl = "%s *dest ; const %s *src ; int len ;" % (T, T)
            sh = """#include "env_pre.h"
#include "pcm.c"
#include "ghost.h"
%(T)s vin_v ;
static void %(fn)s (%(sig)s)
__CPROVER_requires (0 < len && len <= (1 << 28) && %(req)s && %(pre)s)
__CPROVER_assigns (%(asg)s)
__CPROVER_ensures (%(post)s) /*@C20.byte_swap_applied_to_every_element*/ /*@C01.byte_swap_applied_to_every_element*/
;
void h_unit (void)
{	%(decl)s %(T)s nd ; vin_v = nd ; GHOST_HAVOC () ;
	%(fn)s (%(call)s) ;
	CANARY () ;
}
""" % dict(T=T, fn=fn, sig=sig, req=req, pre=pre, post=post, asg=asg, decl=decl, call=call)
            extra.append({"name": "sfendian." + fn, "props": ["C20", "C01", "C05"], "harness_text": sh, "template": "units/gen_pairs.py", "entry": "h_unit", "enforce": fn,
                          "function": "sfendian.h:" + fn, "timeout": 600, "cbmc_flags": ["--object-bits", "9"],
                          "loops": {fn: [{"loop_id": 0, "assigns_locals": True, "assigns": asg, "invariants": inv, "decreases": "len - i"}]}, "trusted": []})
    for ch in (1, 2, 3):
        extra.append({"name": "pairs.paf24_block.ch%d" % ch, "props": ["C01", "C04"], "harness": "paf_pair.harness.c", "entry": "h_paf_pair", "dfcc": False,
                      "function": "paf.c:paf24_write_block + paf24_read_block", "defines": ["-DCH=%d" % ch], "cbmc_flags": ["--unwind", "40", "--object-bits", "9"], "timeout": 600,
                      "tier": "quick" if ch in (2, 3) else "thorough",
                      "kind": "proof(pair lemma; channels enumerated; all sample values and both byte orders symbolic; block loops unwound completely)",
                      "trusted": ["I/O stand-ins: the block buffer is the file"]})
    return extra + [{"name": "pairs.pcm_and_byte_order", "props": ["C01", "C20"], "harness_text": "\n".join(h), "template": "units/gen_pairs.py", "entry": "h_pairs",
             "dfcc": False, "function": "pcm.c:" + ", ".join(p[1] + "/" + p[2] for p in PAIRS) + "; sfendian.h:endswap_*",
             "cbmc_flags": ["--unwind", "10"], "timeout": 600, "kind": "proof(full value domain; two-element arrays)",
             "trusted": ["composition with the array-level units (C02 kernel units, C05 implementation units) is by contract, not re-proved here"]}]


NOT_DECIDED = {
    "C01": ["container headers and frame counts of the round trip (AU pair lemma only: C04)",
            "block codecs the property lists as lossless: ALAC, DWVW, 16-bit DPCM (XI), SDS, PAF24 -- stateful bit packers, no contract within reach",
            "float/double files read back as float/double go through host_read_f / host_write_f (byte copy + byte swap: covered) or, on non-IEEE hosts, the replace_* serialisers (not decided)"],
}
ASSUMPTIONS = {}
