"""C03 / C14 / C15: header cache of src/common.c."""

E = ["E1 realloc/memset models (units/common_header.harness.c)", "psf_log_printf (variadic): assumed to write only psf->parselog",
     "psf_fread/psf_fseek contracts (spec/io_contracts.h): enforced on the real functions in the file_io units"]
LOGASSIGN = "psf->parselog.indx, __CPROVER_object_upto (psf->parselog.buf, sizeof (psf->parselog.buf))"


def U(name, entry, enforce, **kw):
    d = {"name": "common." + name, "props": ["C03", "C15"], "harness": "common_header.harness.c", "entry": entry,
         "enforce": enforce, "function": "common.c:" + enforce, "trusted": E, "timeout": 600,
         "drop_flags": ["--pointer-primitive-check"],
         "replace": ["psf_fread", "psf_fseek", "psf_log_printf", "psf_bump_header_allocation", "verif_pad_contract"]}
    d.update(kw)
    return d


def units():
    return [
        U("psf_bump_header_allocation", "h_bump", "psf_bump_header_allocation", defines=["-DUNIT_BUMP", "-DREALLOC_KEEPS_OLD_BLOCK"],
          replace=["verif_pad_contract"], props=["C03"],
          # psf_log_printf is variadic: neither its body nor (in this unit) its replacement survives DFCC (measured:
          # spurious write-set unwinding failure); its body is replaced by a generated no-op, i.e. the parse log is
          # outside what this unit establishes
          pre_gi_flags=["--remove-function-body", "psf_log_printf", "--generate-function-body", "psf_log_printf",
                        "--generate-function-body-options", "nondet-return"]),
        U("header_read", "h_header_read", "header_read"),
        U("header_seek", "h_header_seek", "header_seek", props=["C03", "C14", "C15"],
          loops={"header_seek": [{"loop_id": 0, "assigns_locals": True, "optional": True,
                                  "assigns": "psf->error, psf->pipeoffset, psf->syserr, __CPROVER_object_whole (&gio)",
                                  "invariants": "skip <= __CPROVER_loop_entry (skip) && gio.fseek_calls == __CPROVER_loop_entry (gio.fseek_calls)",
                                  "decreases": "skip"}]}),
        U("header_gets", "h_header_gets", "header_gets",
          loops={"header_gets": [{"loop_id": 0, "assigns_locals": True,
                                  "assigns": "psf->error, psf->pipeoffset, psf->syserr, psf->header.indx, psf->header.end, __CPROVER_object_whole (&gio), "
                                             "__CPROVER_object_whole (psf->header.ptr), __CPROVER_object_whole (ptr)",
                                  "invariants": "0 <= k && k <= bufsize - 1 && 0 <= psf->header.indx && psf->header.indx <= 102400 && psf->header.indx + (bufsize - 1 - k) < psf->header.len "
                                                "&& 0 <= psf->header.end && psf->header.end <= psf->header.len",
                                  "decreases": "bufsize - k"}]}),
        {"name": "common.psf_default_seek", "props": ["C06", "C08", "C09", "C15"], "harness": "default_seek.harness.c", "entry": "h_default_seek",
         "enforce": "psf_default_seek", "function": "common.c:psf_default_seek", "replace": ["psf_fseek"], "timeout": 600, "backend": "kissat",
         "trusted": ["psf_fseek: any result (ghost record of the position asked for)"]},
    ]


NOT_DECIDED = {
    "C03": ["psf_binheader_readf / psf_binheader_writef (variadic; DFCC cannot instrument them) and the container parsers built on them: no unit yet",
            "validation of SF_INFO after a successful open (psf_open_file tail): no unit yet"],
}
