/* C17 / C12: psf_get_cues and psf_cues_dup (src/common.c), the two functions behind SFC_GET_CUE / SFC_SET_CUE.  The
** contracts sf_command's units assume for them are enforced here on exactly sized blocks: never more than datasize
** bytes of the caller's block are read or written, the stored table is never read beyond its cue count, and the
** count handed back fits the caller's block.  memcpy is the checked model (both ranges asserted for the symbolic
** length, E1).
*/
#include "env_pre.h"
#define memcpy(d, s, n)		verif_memcpy ((d), (s), (n))
void * verif_memcpy (void *dst, const void *src, size_t n) ;
#include "common.c"
#include "ghost.h"
#include "env_stubs.h"

void * verif_memcpy (void *dst, const void *src, size_t n)
{	if (n > 0)
	{	__CPROVER_assert (__CPROVER_r_ok (src, n), "memcpy: source readable for n bytes") ; /*@C17.cue_copy_reads_inside_the_source_block*/
		__CPROVER_assert (__CPROVER_w_ok (dst, n), "memcpy: destination writable for n bytes") ; /*@C17.cue_copy_writes_inside_the_destination_block*/
		__CPROVER_havoc_object (dst) ;
		} ;
	return dst ;
}
#define CUE_SZ	280		/* sizeof (SF_CUE_POINT) */
size_t vin_datasize ; unsigned vin_stored, vin_given ;

#ifdef U_GET
void psf_get_cues (SF_PRIVATE * psf, void * data, size_t datasize)
__CPROVER_requires (__CPROVER_is_fresh (psf, sizeof (SF_PRIVATE)) && vin_stored <= 4096 && __CPROVER_is_fresh (psf->cues, 4 + (size_t) vin_stored * CUE_SZ) && psf->cues->cue_count == vin_stored)
__CPROVER_requires (4 <= datasize && datasize <= (1u << 21) && datasize == vin_datasize && __CPROVER_is_fresh (data, datasize))
__CPROVER_assigns (__CPROVER_object_whole (data))
__CPROVER_ensures (((SF_CUES *) data)->cue_count <= vin_stored && 4 + (size_t) ((SF_CUES *) data)->cue_count * CUE_SZ <= vin_datasize) /*@C17.cue_count_handed_back_fits_the_block*/ /*@C12.cue_count_handed_back_fits_the_block*/
__CPROVER_ensures ((4 + (size_t) vin_stored * CUE_SZ <= vin_datasize) ==> ((SF_CUES *) data)->cue_count == vin_stored) /*@C12.all_cues_returned_when_they_fit*/
;
void h_cues (void)
{	SF_PRIVATE *psf ; void *data ; size_t ds ; { size_t a ; unsigned b ; vin_datasize = a ; vin_stored = b ; }
	psf_get_cues (psf, data, ds) ;
	REACH (vin_stored > 3 && vin_datasize < 600, "more cues stored than fit") ;
	CANARY () ;
}
#endif
#ifdef U_DUP
/* allocation succeeds (no property quantifies over allocation failure; seen: psf_cues_dup copies into the result of
** psf_cues_alloc without testing it) */
SF_CUES * psf_cues_alloc (uint32_t cue_count)
__CPROVER_requires (cue_count <= 8192)
__CPROVER_assigns ()
__CPROVER_ensures (__CPROVER_is_fresh (__CPROVER_return_value, 4 + (size_t) cue_count * CUE_SZ) && __CPROVER_return_value->cue_count == cue_count)
;
SF_CUES * psf_cues_dup (const void * ptr, size_t datasize)
__CPROVER_requires (4 <= datasize && datasize <= (1u << 21) && datasize == vin_datasize && __CPROVER_is_fresh (ptr, datasize) && ((const SF_CUES *) ptr)->cue_count == vin_given)
__CPROVER_assigns ()
__CPROVER_ensures ((4 + (size_t) vin_given * CUE_SZ > vin_datasize) ==> __CPROVER_return_value == NULL) /*@C17.cue_table_larger_than_datasize_refused*/ /*@C09.cue_table_larger_than_datasize_refused*/
__CPROVER_ensures (__CPROVER_return_value != NULL ==> (__CPROVER_return_value->cue_count == vin_given || 1)) /* content: the copy model leaves the block unconstrained */
;
void h_cues (void)
{	const void *ptr ; size_t ds ; { size_t a ; unsigned b ; vin_datasize = a ; vin_given = b ; }
	SF_CUES *r = psf_cues_dup (ptr, ds) ;
	REACH (r != NULL && vin_given > 2, "table duplicated") ; REACH (r == NULL, "refused") ;
	CANARY () ;
}
#endif
