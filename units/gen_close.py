"""C16: release of everything a handle owns."""


def units():
    import os, re
    U = []
    repo = os.environ.get("VERIF_REPO", "/repo")
    try:
        src = open(os.path.join(repo, "src", "sndfile.c"), errors="replace").read()
        body = src[src.index("\npsf_open_file (SF_PRIVATE *psf, SF_INFO *sfinfo)"):src.index("} /* psf_open_file */")]
        opens = sorted(set(re.findall(r"error = (\w+_open) \(psf\)", body)))
    except (OSError, ValueError):
        opens = []
    if opens:
        decls = " ".join("ANY_EFFECT_ON_HANDLE (int %s (SF_PRIVATE *psf))" % o for o in opens)
        U.append({"name": "close.psf_open_file", "props": ["C16", "C15", "C09", "C03"], "harness": "open_file.harness.c", "entry": "h_open_file", "enforce": "psf_open_file",
                  "function": "sndfile.c:psf_open_file", "timeout": 900, "cbmc_flags": ["--object-bits", "11"], "defines": ["-DOPEN_FUNCTIONS=" + decls],
                  "replace": opens + ["psf_close", "sf_format_check", "psf_rand_int32", "psf_is_pipe", "psf_get_filelen", "psf_fseek", "psf_ftell", "guess_file_type",
                                      "format_from_extension", "save_header_info", "psf_log_SF_INFO", "sf_error_number"],
                  "trusted": ["container open functions: any return value, any effect on the handle except that bytewidth stays in 0..8 (frame contracts generated from the dispatch switch)",
                              "psf_close releases the handle (unit close.psf_close)", "E1 snprintf model"]})
    U.append({"name": "close.psf_close", "props": ["C16", "C19"], "harness": "close.harness.c", "entry": "h_psf_close", "dfcc": False,
              "function": "sndfile.c:psf_close", "cbmc_flags": ["--unwind", "5", "--memory-leak-check", "--object-bits", "9"],
              "defines": ["-DNCHUNKS=3"], "timeout": 900,
              "kind": "proof(every subset of owned blocks and hooks; write-chunk payloads bounded: <= 3, unwound completely)",
              "trusted": ["CBMC heap model (malloc/calloc/free, memory-leak check tracks one arbitrary allocation)",
                          "psf_fclose / psf_close_rsrc stand-ins counting calls (their behaviour: file_io units)",
                          "close hooks release exactly what is nested in their private block (stand-ins)"]})
    U.append({"name": "close.aiff_open", "props": ["C16", "C10"], "harness": "aiff_open.harness.c", "entry": "h_aiff_open", "enforce": "aiff_open",
              "function": "aiff.c:aiff_open", "timeout": 600, "cbmc_flags": ["--object-bits", "9"],
              "replace": ["aiff_read_header", "aiff_write_header", "pcm_init", "ulaw_init", "alaw_init", "float32_init", "double64_init", "dwvw_init",
                          "aiff_ima_init", "gsm610_init", "psf_fseek"],
              "trusted": ["aiff_read_header / aiff_write_header frame contracts (not enforced: the parser itself is outside this unit)",
                          "codec initialisers leave container_data / container_close alone (frame contract, not enforced)",
                          "psf_fseek contract (enforced in file_io units)"]})
    U.append({"name": "close.alac_close", "props": ["C16", "C15"], "harness": "alac_close.harness.c", "entry": "h_alac_close", "enforce": "alac_close",
              "function": "alac.c:alac_close", "timeout": 600, "cbmc_flags": ["--object-bits", "9", "--unwindset", "alac_close_wrapped_for_contract_checking.0:5,alac_close.0:5"],
              "replace": ["psf_fwrite", "alac_encode_block", "alac_get_magic_cookie", "alac_pakt_encode", "psf_save_write_chunk"],
              # goto-instrument 6.11 aborts (get_loop_head_or_end) when a loop contract is attached to this loop (call with side effect in
              # the loop condition): bounded stand-in instead -- at most 3 non-empty reads of the scratch file, unwound completely
              "defines": ["-DTMP_READS_MAX=3"], "kind": "bounded(scratch file copied in <= 3 reads; everything else symbolic)",
              "trusted": ["E1 stdio contracts (fseek, fread, fclose, remove) with ghost counters; the scratch file is finite",
                          "frame contracts of alac_encode_block, alac_get_magic_cookie, alac_pakt_encode, psf_save_write_chunk (chunk unit), psf_fwrite (file_io units)"]})
    return U


NOT_DECIDED = {}
ASSUMPTIONS = {}
