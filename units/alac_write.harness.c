/* C01 / C07 / C05: the four ALAC write entry points of src/alac.c (the glue between the caller's samples and the
** block encoder).  Samples are staged in plac->buffer until a block of frames_per_block frames is full; what is left
** over waits there for the next call.  Claims, for one arbitrary item g_n of the call (ghost index) and any block
** fill level at entry:
**  - the item is stored at its stream position: offset (p0 * channels + g_n) modulo the block length, where p0 is
**    the number of frames already waiting at entry -- so the stream the encoder sees is the concatenation of the
**    callers' buffers however the calls are split (C07) and nothing is lost or reordered (C01);
**  - the encoder runs exactly when a block is full, and sees the item at that position;
**  - every item is consumed (C05), the carry-over is exactly the unfinished block.
** sf_write_int / sf_write_short copy with explicit loops (the value is checked too: int as is, short << 16);
** float / double go through psf_f2i_array & co, replaced by a contract that pins the destination pointer.
** Block length fixed to the writer's 4096 frames, channel count enumerated.
*/
#include "env_pre.h"
#define psf_log_printf(...)		verif_nolog ()
#include "alac.c"
void verif_nolog (void) { }
#include "ghost.h"
#include "env_stubs.h"

#ifndef CH
#define CH 2
#endif
#ifndef FPB
#define FPB		4096
#endif
#define B		(FPB * CH)
#define PLAC	((ALAC_PRIVATE *) psf->codec_data)

int g_n ; int g_val ; int vin_p0 ; int g_enc_calls ; sf_count_t vin_len ;
ALAC_PRIVATE *g_plac ;
const void *vin_ptr ;	/* the caller's buffer (loop invariants relate the moving ptr to it) */
#define ABS		((long) vin_p0 * CH + g_n)
#define BLK		(ABS / B)
#define POS		(ABS % B)

static int alac_encode_block (ALAC_PRIVATE *plac)
__CPROVER_requires (__CPROVER_r_ok (plac, sizeof (ALAC_PRIVATE)) && 0 <= g_enc_calls && g_enc_calls <= (1 << 20))
__CPROVER_requires (plac->partial_block_frames == FPB) /*@C07.blocks_are_encoded_exactly_when_full*/ /*@C01.blocks_are_encoded_exactly_when_full*/
#ifdef ITEM_VALUE
__CPROVER_requires (BLK == g_enc_calls ==> plac->buffer [POS] == g_val) /*@C01.item_reaches_the_encoder_at_its_stream_position*/ /*@C07.item_reaches_the_encoder_at_its_stream_position*/
#endif
__CPROVER_assigns (plac->partial_block_frames, plac->frames_this_block, g_enc_calls)
__CPROVER_ensures (plac->partial_block_frames == 0 && g_enc_calls == __CPROVER_old (g_enc_calls) + 1)
;

#ifdef CONVERT_FN
/* psf_f2i_array & co: the destination must be the stream position of the chunk (values: conversion rules, C02) */
#define CONVERT_C(name, ST)	void name (const ST *src, int *dest, int count, int normalize) \
	__CPROVER_requires (count > 0 && count <= B && __CPROVER_r_ok (src, (size_t) count * sizeof (ST))) \
	__CPROVER_requires (dest == g_plac->buffer + (long) g_plac->partial_block_frames * CH) /*@C01.converted_chunk_lands_at_its_stream_position*/ /*@C07.converted_chunk_lands_at_its_stream_position*/ \
	__CPROVER_requires ((long) g_plac->partial_block_frames * CH + count <= B) /*@C05.staging_buffer_not_overrun*/ \
	__CPROVER_assigns (__CPROVER_object_upto (dest, (size_t) count * 4)) ;
CONVERT_C (CONVERT_FN, T)
CONVERT_C (CONVERT_CLIP_FN, T)
#endif

static sf_count_t FN (SF_PRIVATE *psf, const T *ptr, sf_count_t len)
__CPROVER_requires (__CPROVER_is_fresh (psf, sizeof (SF_PRIVATE)) && __CPROVER_is_fresh (psf->codec_data, sizeof (ALAC_PRIVATE) + (size_t) B * 4))
__CPROVER_requires (PLAC->channels == CH && PLAC->frames_per_block == FPB && PLAC->partial_block_frames < FPB && PLAC->partial_block_frames == (unsigned) vin_p0 && 0 <= vin_p0)
__CPROVER_requires (len > 0 && len <= (1 << 24) && len % CH == 0 && len == vin_len && __CPROVER_is_fresh (ptr, (size_t) len * sizeof (T)))
__CPROVER_requires (0 <= g_n && g_n < len && g_enc_calls == 0 && g_plac == PLAC && ptr == vin_ptr)
#ifdef ITEM_VALUE
__CPROVER_requires (g_val == ITEM_VALUE (ptr [g_n]))
#endif
__CPROVER_assigns (PLAC->partial_block_frames, PLAC->frames_this_block, g_enc_calls, __CPROVER_object_from (PLAC->buffer))
__CPROVER_ensures (__CPROVER_return_value == vin_len) /*@C05.every_item_consumed*/ /*@C01.every_item_consumed*/
__CPROVER_ensures (PLAC->partial_block_frames < FPB && (long) PLAC->partial_block_frames * CH == (long) vin_p0 * CH + vin_len - (long) g_enc_calls * B) /*@C07.carry_over_is_the_unfinished_block*/ /*@C01.carry_over_is_the_unfinished_block*/
#ifdef ITEM_VALUE
__CPROVER_ensures (BLK == g_enc_calls ==> PLAC->buffer [POS] == g_val) /*@C01.waiting_item_sits_at_its_stream_position*/ /*@C07.waiting_item_sits_at_its_stream_position*/
#endif
;

void h_alac_write (void)
{	SF_PRIVATE *psf ; const T *ptr ; sf_count_t len ;
#ifdef CONVERT_FN
	void *keep_c [] = { (void *) CONVERT_FN, (void *) CONVERT_CLIP_FN } ; (void) keep_c ;
#endif
	{ int a [3] ; sf_count_t l ; ALAC_PRIVATE *p ; const void *q ; vin_ptr = q ; g_n = a [0] ; g_val = a [1] ; vin_p0 = a [2] ; vin_len = l ; g_plac = p ; }
	g_enc_calls = 0 ;
	sf_count_t r = FN (psf, ptr, len) ;
	REACH (g_enc_calls >= 2, "call spans several blocks") ;
	REACH (g_enc_calls == 0 && vin_p0 > 0, "call only adds to a waiting block") ;
	CANARY () ;
}
