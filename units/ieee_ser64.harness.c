/* C20: the portable IEEE-754 single precision serialisers of src/double64.c against the native representation.
** Plain lemmas over the REAL functions for every double value (full domain, no loops).  E1 models (exact for the
** arguments these functions pass): frexp for normal doubles, pow (2.0, n) for integer n -- both written on the bit
** pattern, as IEEE 754 defines them.
*/
#include "env_pre.h"
#include <math.h>
#ifndef NATIVE_REPLAY	/* the native replay runs on the real libm */
#define frexp(x, e)		verif_frexp ((x), (e))
#define pow(b, e)		verif_pow2 ((b), (e))
#define fmod(x, y)		verif_fmod1 ((x), (y))
double verif_fmod1 (double x, double y) ;
#endif
double verif_frexp (double x, int *e) ;
double verif_pow2 (double b, double e) ;
#include "double64.c"
#undef frexp
#undef pow
#undef fmod
#include "ghost.h"

double verif_frexp (double x, int *e)
{	union { double d ; uint64_t u ; } v ; v.d = x ;
	int ef = (int) ((v.u >> 52) & 0x7ff) ;
	__CPROVER_assert (ef != 0 && ef != 0x7ff, "E1 frexp model: normal argument") ;
	*e = ef - 1022 ;
	v.u = (v.u & ~(0x7ffULL << 52)) | (1022ULL << 52) ;
	return v.d ;
}
double verif_pow2 (double b, double e)
{	__CPROVER_assert (b == 2.0 && e >= 0.0 && e <= 1023.0 && e == (double) (int) e, "E1 pow model: 2 to a small integer power") ;
	union { double d ; uint64_t u ; } v ; v.u = (uint64_t) (1023 + (int) e) << 52 ;
	return v.d ;
}

/* E1: fmod (x, 1.0) for x >= 0: the fractional part (exact in IEEE arithmetic) */
double verif_fmod1 (double x, double y)
{	__CPROVER_assert (y == 1.0 && x >= 0.0 && x < 1e18, "E1 fmod model: fractional part of a non-negative value") ;
	return x - __CPROVER_round_to_integrald (x, 3 /* toward zero */) ;
}

#define IS_NORMAL_BITS64(u)	((((u) >> 52) & 0x7ff) != 0 && (((u) >> 52) & 0x7ff) != 0x7ff)

void h_f64_write (void)
{	union { double f ; uint64_t u ; unsigned char b [8] ; } x ; INPUT (uint64_t, nd) ; x.u = nd ;
	__CPROVER_assume (IS_NORMAL_BITS64 (x.u)) ;
	unsigned char le [8], be [8] ;
	double64_le_write (x.f, le) ;
	double64_be_write (x.f, be) ;
	for (int k = 0 ; k < 8 ; k++)
	{	__CPROVER_assert (le [k] == x.b [k], "little-endian serialiser equals the native bytes for every normal value") ; /*@C20.double64_le_write_equals_native*/
		__CPROVER_assert (be [k] == x.b [7 - k], "big-endian serialiser equals the native bytes reversed for every normal value") ; /*@C20.double64_be_write_equals_native*/
		} ;
	CANARY () ;
}

void h_f64_read (void)
{	union { double f ; uint64_t u ; unsigned char b [8] ; } x ; INPUT (uint64_t, nd) ; x.u = nd ;
	__CPROVER_assume (IS_NORMAL_BITS64 (x.u)) ;
	unsigned char be [8] ;
	for (int k = 0 ; k < 8 ; k++) be [k] = x.b [7 - k] ;
	union { double f ; uint64_t u ; } rl, rb ;
	rl.f = double64_le_read (x.b) ;
	rb.f = double64_be_read (be) ;
	__CPROVER_assert (rl.u == x.u, "little-endian deserialiser returns the native value of the bytes") ; /*@C20.double64_le_read_equals_native*/
	__CPROVER_assert (rb.u == x.u, "big-endian deserialiser returns the native value of the bytes") ; /*@C20.double64_be_read_equals_native*/
	CANARY () ;
}
