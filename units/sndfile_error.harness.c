/* C09 / C19: the error reporting functions of src/sndfile.c.
**  - sf_error_number: for every 0 <= e < SFE_MAX_ERROR a non-empty message that is not the
**    "no error defined" fallback; never NULL for any int;
**  - sf_error: NULL handle -> the global error, otherwise exactly the handle's own error (C19: the
**    error state of one handle is not influenced by the global one or by other handles);
**  - sf_error_str: writes at most maxlen bytes, NUL-terminated.
*/
#include "env_pre.h"
#include "sndfile.c"
#include "ghost.h"
#include "env_stubs.h"

#define PSF ((SF_PRIVATE *) sndfile)
int vin_errnum, vin_error, vin_sf_errno ;

int psf_file_valid (SF_PRIVATE *psf)
__CPROVER_requires (__CPROVER_r_ok (psf, sizeof (SF_PRIVATE)))
__CPROVER_assigns ()
__CPROVER_ensures (__CPROVER_return_value == (psf->file.filedes >= 0 ? SF_TRUE : SF_FALSE))
;

#define IS_FALLBACK(s)	((s) [0] == 'N' && (s) [1] == 'o' && (s) [2] == ' ' && (s) [3] == 'e' && (s) [4] == 'r' && (s) [5] == 'r' && (s) [6] == 'o' && (s) [7] == 'r' && (s) [8] == ' ' && (s) [9] == 'd')

#ifndef UNIT_ERROR_NUMBER_PLAIN
const char * sf_error_number (int errnum)
__CPROVER_assigns ()
__CPROVER_ensures (__CPROVER_return_value != NULL)
;
#endif

int sf_error (SNDFILE *sndfile)
__CPROVER_requires (sndfile == NULL || (__CPROVER_is_fresh (sndfile, sizeof (SF_PRIVATE)) && PSF->Magick == SNDFILE_MAGICK && PSF->error == vin_error))
__CPROVER_requires (sf_errno == vin_sf_errno)
__CPROVER_assigns (sndfile != NULL: PSF->error)
__CPROVER_ensures (sndfile == NULL ==> __CPROVER_return_value == vin_sf_errno) /*@C09.null_handle_reports_global_error*/
__CPROVER_ensures ((sndfile != NULL && (PSF->virtual_io != SF_FALSE || PSF->file.filedes >= 0)) ==> (__CPROVER_return_value == vin_error && PSF->error == vin_error)) /*@C19.handle_error_is_its_own*/
__CPROVER_ensures (sf_errno == vin_sf_errno) /*@C19.query_leaves_global_error*/
;

int sf_error_str (SNDFILE *sndfile, char *str, size_t maxlen)
__CPROVER_requires (sndfile == NULL || (__CPROVER_is_fresh (sndfile, sizeof (SF_PRIVATE)) && PSF->Magick == SNDFILE_MAGICK))
__CPROVER_requires (maxlen <= 4096 && (str == NULL || __CPROVER_is_fresh (str, maxlen)))
__CPROVER_assigns (sndfile != NULL: PSF->error; (str != NULL && maxlen > 0): __CPROVER_object_whole (str))
;

#ifdef UNIT_ERROR_NUMBER_PLAIN
/* plain (non-DFCC) harness: DFCC treats file-local statics (the message table, the fallback string pointer) as
** unconstrained, so the table scan is decided by complete unwinding over the constant table instead */
void h_error_number (void)
{	int e ;
	const char *s = sf_error_number (e) ;
	__CPROVER_assert (s != NULL && s [0] != 0, "every error number has a non-empty text") ; /*@C09.every_error_number_has_a_non_empty_text*/
	__CPROVER_assert (!(0 <= e && e < SFE_MAX_ERROR) || !IS_FALLBACK (s), "every library error code has its own message") ; /*@C09.every_library_error_code_has_its_own_message*/
	CANARY () ;
}
#endif
void h_error (void)
{	SNDFILE *sndfile ; int a, b ; vin_error = a ; vin_sf_errno = b ; sf_errno = b ;
	int r = sf_error (sndfile) ;
	REACH (r != 0 && sndfile != NULL, "handle with an error") ;
	CANARY () ;
}
void h_error_str (void)
{	SNDFILE *sndfile ; char *str ; size_t maxlen ;
	sf_error_str (sndfile, str, maxlen) ;
	CANARY () ;
}
