/* C05 / C04 / C08 / C09: sf_write_raw and sf_read_raw (src/sndfile.c), byte-granular access on sample-granular
** encodings.  Channel count and byte width are enumerated (CH, BYTEW), everything else symbolic. */
#include "env_pre.h"
#include "sndfile.c"
#include "ghost.h"
#include "dispatch.h"
#include "io_contracts.h"

#ifndef CH
#define CH 2
#endif
#ifndef BYTEW
#define BYTEW 2
#endif
#define BLOCKW (CH * BYTEW)
#define PSF ((SF_PRIVATE *) sndfile)
sf_count_t vin_len, vin_frames, vin_rc, vin_wc ;
int vin_mode, vin_last_op, vin_have_written ;

int psf_file_valid (SF_PRIVATE *psf)
__CPROVER_requires (__CPROVER_r_ok (psf, sizeof (SF_PRIVATE)))
__CPROVER_assigns ()
__CPROVER_ensures (__CPROVER_return_value == (psf->file.filedes >= 0 ? SF_TRUE : SF_FALSE))
;
void * psf_memset (void *s, int c, sf_count_t len)
__CPROVER_requires (len <= 0 || __CPROVER_w_ok (s, (size_t) len))
__CPROVER_assigns (len > 0: __CPROVER_object_from (s))
__CPROVER_ensures (__CPROVER_return_value == s)
;

#define HANDLE_OK	(__CPROVER_is_fresh (sndfile, sizeof (SF_PRIVATE)) && PSF->Magick == SNDFILE_MAGICK && PSF->sf.channels == CH \
	&& PSF->bytewidth == BYTEW && PSF->blockwidth == BLOCKW \
	&& 0 <= PSF->sf.frames && PSF->sf.frames <= FRAMES_MAX && 0 <= PSF->read_current && PSF->read_current <= FRAMES_MAX \
	&& 0 <= PSF->write_current && PSF->write_current <= FRAMES_MAX \
	&& (PSF->file.mode == SFM_READ || PSF->file.mode == SFM_WRITE || PSF->file.mode == SFM_RDWR) \
	&& PSF->seek != NULL && __CPROVER_obeys_contract (PSF->seek, codec_seek_c) \
	&& (PSF->write_header == NULL || __CPROVER_obeys_contract (PSF->write_header, container_write_header_c)) \
	&& PSF->sf.frames == vin_frames && PSF->read_current == vin_rc && PSF->write_current == vin_wc \
	&& PSF->file.mode == vin_mode && PSF->last_op == vin_last_op && PSF->have_written == vin_have_written)
#define FILE_OK		(PSF->virtual_io != SF_FALSE || PSF->file.filedes >= 0)

#ifdef UNIT_WRITE_RAW
#define VALID_CALL	(sndfile != NULL && FILE_OK && len > 0 && vin_mode != SFM_READ && len % BLOCKW == 0)
#define WROTE		(gio.fwrite_calls == 1)
sf_count_t sf_write_raw (SNDFILE *sndfile, const void *ptr, sf_count_t len)
__CPROVER_requires (sndfile == NULL || HANDLE_OK)
__CPROVER_requires (len == vin_len && -LEN_MAX <= len && len <= LEN_MAX)
__CPROVER_requires (len <= 0 || __CPROVER_is_fresh (ptr, (size_t) len))
__CPROVER_assigns (sf_errno, __CPROVER_object_whole (&gd), __CPROVER_object_whole (&gio); sndfile != NULL: __CPROVER_object_whole (sndfile))
__CPROVER_ensures ((sndfile != NULL && FILE_OK && len > 0 && vin_mode == SFM_READ) ==> (__CPROVER_return_value == 0 && PSF->error == SFE_NOT_WRITEMODE)) /*@C09.write_on_read_handle*/
__CPROVER_ensures ((sndfile != NULL && FILE_OK && len > 0 && vin_mode != SFM_READ && len % BLOCKW != 0) ==> (__CPROVER_return_value == 0 && PSF->error == SFE_BAD_WRITE_ALIGN)) /*@C09.misaligned_count*/
__CPROVER_ensures ((sndfile != NULL && !VALID_CALL) ==> (PSF->write_current == vin_wc && PSF->sf.frames == vin_frames && PSF->read_current == vin_rc && gio.fwrite_calls == 0)) /*@C09.invalid_call_changes_nothing*/
__CPROVER_ensures (0 <= __CPROVER_return_value && (len < 0 || __CPROVER_return_value <= len)) /*@C05.write_ret_range*/ /*@C15.ret_in_documented_range*/
__CPROVER_ensures ((VALID_CALL && WROTE) ==> (PSF->write_current == vin_wc + __CPROVER_return_value / BLOCKW)) /*@C05.write_position_advances_by_ret*/ /*@C04.frames_accepted_are_counted*/ /*@C08.write_position_advances_by_ret*/
__CPROVER_ensures ((VALID_CALL && WROTE) ==> (PSF->sf.frames == (PSF->write_current > vin_frames ? PSF->write_current : vin_frames))) /*@C04.frames_is_max_of_old_and_write_position*/ /*@C08.frames_is_max_of_old_and_write_position*/
__CPROVER_ensures ((VALID_CALL && WROTE && __CPROVER_return_value < len) ==> gio.io_short == 1) /*@C05.write_short_only_when_io_fails*/
__CPROVER_ensures ((VALID_CALL && !WROTE) ==> (__CPROVER_return_value == 0 && PSF->write_current == vin_wc && PSF->sf.frames == vin_frames)) /*@C05.failed_write_changes_no_position*/
__CPROVER_ensures (sndfile != NULL ==> PSF->read_current == vin_rc) /*@C08.write_leaves_read_position*/
;
#endif

#ifdef UNIT_READ_RAW
#define VALID_CALL	(sndfile != NULL && FILE_OK && bytes > 0 && vin_mode != SFM_WRITE && bytes % BLOCKW == 0)
#define AT_END		(vin_rc >= vin_frames)
sf_count_t sf_read_raw (SNDFILE *sndfile, void *ptr, sf_count_t bytes)
__CPROVER_requires (sndfile == NULL || HANDLE_OK)
__CPROVER_requires (bytes == vin_len && -LEN_MAX <= bytes && bytes <= LEN_MAX)
__CPROVER_requires (bytes <= 0 || __CPROVER_is_fresh (ptr, (size_t) bytes))
__CPROVER_assigns (sf_errno, __CPROVER_object_whole (&gd), __CPROVER_object_whole (&gio); sndfile != NULL: __CPROVER_object_whole (sndfile); bytes > 0: __CPROVER_object_whole (ptr))
__CPROVER_ensures ((sndfile != NULL && FILE_OK && bytes != 0 && vin_mode == SFM_WRITE) ==> (__CPROVER_return_value == 0 && PSF->error == SFE_NOT_READMODE)) /*@C09.read_on_write_handle*/
__CPROVER_ensures (0 <= __CPROVER_return_value && (bytes < 0 || __CPROVER_return_value <= bytes)) /*@C05.read_ret_range*/ /*@C15.ret_in_documented_range*/
__CPROVER_ensures ((VALID_CALL && !AT_END && gio.fread_calls == 1) ==> (PSF->read_current == vin_rc + __CPROVER_return_value / BLOCKW && PSF->read_current <= vin_frames)) /*@C05.read_position_advances_by_ret*/ /*@C06.read_position_advances_by_ret*/
__CPROVER_ensures ((VALID_CALL && AT_END) ==> (__CPROVER_return_value == 0 && PSF->read_current == vin_rc && gio.fread_calls == 0)) /*@C05.eof_returns_zero_no_error*/
__CPROVER_ensures (sndfile != NULL ==> (PSF->write_current == vin_wc && PSF->sf.frames == vin_frames)) /*@C08.read_leaves_write_side*/
;
#endif

void h_raw (void)
{	SNDFILE *sndfile ; void *ptr ; sf_count_t n ;
	void *keep_c [] = { (void *) codec_seek_c, (void *) container_write_header_c } ; (void) keep_c ;
	{ sf_count_t a [4] ; int b [3] ; vin_len = a [0] ; vin_frames = a [1] ; vin_rc = a [2] ; vin_wc = a [3] ; vin_mode = b [0] ; vin_last_op = b [1] ; vin_have_written = b [2] ; }
	g_codec_calls = 0 ; g_seek_calls = 0 ; g_hdr_calls = 0 ; gio.io_short = 0 ; gio.fread_calls = 0 ; gio.fwrite_calls = 0 ; gio.fseek_calls = 0 ;
#ifdef UNIT_WRITE_RAW
	sf_count_t r = sf_write_raw (sndfile, ptr, n) ;
#else
	sf_count_t r = sf_read_raw (sndfile, ptr, n) ;
#endif
	REACH (r > 0 && r == vin_len, "full transfer") ;
	REACH (r > 0 && r < vin_len, "short transfer") ;
	CANARY () ;
}
