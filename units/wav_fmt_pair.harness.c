/* C04 / C10: the 'fmt ' chunk of WAV files, writer against reader, through the REAL code:
** wav_write_fmt_chunk (src/wav.c) -> bytes in the header cache -> wavlike_read_fmt_chunk (src/wavlike.c), both on
** the real psf_binheader_writef / readf.  Re-opening reports the channel count, the sample rate and the encoding
** that were requested (and, for PCM / float / G.711, the sample width).  Encoding and channel count enumerated,
** sample rate symbolic.
*/
#include "env_pre.h"
#define psf_log_printf(...)		verif_nolog ()
#include "wav.c"
void verif_nolog (void) { }
#include "ghost.h"
#include "env_stubs.h"

#ifndef CH
#define CH 2
#endif
#ifndef SUBFORMAT
#define SUBFORMAT SF_FORMAT_PCM_16
#endif
#ifndef BW
#define BW 2
#endif
#define HDR 64
static unsigned char hw [HDR], hr [HDR] ;
static SF_PRIVATE W, R ;
static WAVLIKE_PRIVATE wpriv_w, wpriv_r ;

/* the MS ADPCM coefficient table (ms_adpcm.c, not linked): 28 bytes of header */
void wavlike_msadpcm_write_adapt_coeffs (SF_PRIVATE *psf) { psf->header.indx += 28 ; }

void h_wav_fmt_pair (void)
{	int rate ;
	__CPROVER_assume (1 <= rate && rate <= (1 << 19)) ;		/* above, the informational bytes-per-second product overflows int (seen) */
	W.header.ptr = hw ; W.header.len = HDR ; W.rwf_endian = SF_ENDIAN_LITTLE ; W.container_data = &wpriv_w ;
	W.sf.channels = CH ; W.sf.samplerate = rate ; W.sf.format = SF_FORMAT_WAV | SUBFORMAT ; W.bytewidth = BW ; W.blockwidth = BW * CH ;
	int wr = wav_write_fmt_chunk (&W) ;
	__CPROVER_assert (wr == 0, "encoding accepted by the fmt chunk writer") ; /*@C10.accepted_format_is_writable*/
	int fmtsize = hw [0] | (hw [1] << 8) | (hw [2] << 16) | (hw [3] << 24) ;
	__CPROVER_assert (16 <= fmtsize && 4 + fmtsize <= W.header.indx, "the size field covers the chunk body that was written") ; /*@C04.fmt_chunk_length*/
	for (int k = 0 ; k < HDR ; k++) hr [k] = hw [k] ;
	R.header.ptr = hr ; R.header.len = HDR ; R.header.end = W.header.indx ; R.header.indx = 4 ; R.rwf_endian = SF_ENDIAN_LITTLE ; R.virtual_io = SF_TRUE ;
	R.container_data = &wpriv_r ; R.sf.format = SF_FORMAT_WAV ;
	int r = wavlike_read_fmt_chunk (&R, fmtsize) ;
	__CPROVER_assert (r == 0, "reader accepts the chunk the writer produced") ; /*@C04.reopen_succeeds*/ /*@C10.written_file_reopens*/
	__CPROVER_assert (R.sf.channels == CH, "channels") ; /*@C04.channels_round_trip*/
	__CPROVER_assert (R.sf.samplerate == rate, "sample rate") ; /*@C04.samplerate_round_trip*/
	__CPROVER_assert ((R.sf.format & SF_FORMAT_SUBMASK) == SUBFORMAT, "encoding") ; /*@C04.format_round_trip*/ /*@C10.written_file_reopens_as_same_format*/
#if BW > 0
	__CPROVER_assert (R.bytewidth == BW, "sample width") ; /*@C04.geometry_round_trip*/
#endif
	free (R.channel_map) ;
	CANARY () ;
}
