/* C15 / C16: alac_close (src/alac.c) gives back the writer's scratch file and packet table for every I/O outcome:
** short or failing writes while the encoded packets are copied into the output, a failing header write, a short
** scratch file.  The codec work (final block, cookie, packet table) and the I/O primitives are replaced by contracts;
** stdio (fseek, fread, fclose, remove) by E1 contracts with ghost counters; the scratch file is finite (ghost
** g_tmp_left decreases with every non-empty fread).
*/
#include "env_pre.h"
#define psf_log_printf(...)		verif_nolog ()
#include "alac.c"
void verif_nolog (void) { }
#include "ghost.h"
#include "env_stubs.h"

int g_fclose_calls, g_remove_calls, g_io_short, g_reads ;
sf_count_t g_tmp_left ;
int vin_mode, vin_have_tmp ;
void *vin_pakt ;

#define PLAC	((ALAC_PRIVATE *) psf->codec_data)

/* E1 stdio models (bodies: DFCC's loop transformation does not accept a replaced call in the loop condition) */
int fseek (FILE *f, long off, int whence)
{	__CPROVER_assert (f != NULL, "E1 fseek: open stream") ; int r_nd ; return r_nd ; }
size_t fread (void *ptr, size_t size, size_t n, FILE *f)
{	__CPROVER_assert (f != NULL && size == 1 && n > 0 && n <= 8192 && __CPROVER_w_ok (ptr, n), "E1 fread: open stream, buffer writable for n bytes") ;
	size_t r_nd ; size_t r = r_nd ;
	__CPROVER_assume (r <= n && (sf_count_t) r <= g_tmp_left) ;		/* the scratch file is finite */
#ifdef TMP_READS_MAX
	if (g_reads >= TMP_READS_MAX) r = 0 ; else g_reads ++ ;				/* bounded stand-in: number of non-empty reads */
#endif
	if (r > 0) { __CPROVER_havoc_slice (ptr, n) ; g_tmp_left -= (sf_count_t) r ; }
	return r ;
}
int fclose (FILE *f)
{	__CPROVER_assert (f != NULL && g_fclose_calls == 0, "E1 fclose: stream closed at most once") ; /*@C16.scratch_file_closed_at_most_once*/
	g_fclose_calls ++ ; int r_nd ; return r_nd ;
}
int remove (const char *path)
{	__CPROVER_assert (__CPROVER_r_ok (path, 1), "E1 remove: path readable") ;
	g_remove_calls ++ ; int r_nd ; return r_nd ;
}
sf_count_t psf_fwrite (const void *ptr, sf_count_t bytes, sf_count_t items, SF_PRIVATE *psf)
__CPROVER_requires (bytes == 1 && items > 0 && items <= 8192 && __CPROVER_r_ok (ptr, (size_t) items) && __CPROVER_r_ok (psf, sizeof (SF_PRIVATE)))
__CPROVER_assigns (psf->error, psf->pipeoffset, psf->syserr, g_io_short)
__CPROVER_ensures (0 <= __CPROVER_return_value && __CPROVER_return_value <= items)
;
/* codec work, by frame */
static int alac_encode_block (ALAC_PRIVATE *plac)
__CPROVER_requires (__CPROVER_r_ok (plac, sizeof (ALAC_PRIVATE)))
__CPROVER_assigns (plac->partial_block_frames, plac->frames_this_block, g_tmp_left)
__CPROVER_ensures (0 <= g_tmp_left && g_tmp_left <= (1LL << 40))
;
void alac_get_magic_cookie (ALAC_ENCODER *p, void * config, uint32_t * ioSize)
__CPROVER_requires (__CPROVER_w_ok (config, 1024) && __CPROVER_w_ok (ioSize, 4))
__CPROVER_assigns (*ioSize, __CPROVER_object_from (config))
__CPROVER_ensures (*ioSize <= 1024)
;
static uint8_t * alac_pakt_encode (const SF_PRIVATE *psf, uint32_t * pakt_size_out)
__CPROVER_requires (__CPROVER_w_ok (pakt_size_out, 4))
__CPROVER_assigns (*pakt_size_out)
__CPROVER_ensures (__CPROVER_return_value == NULL || __CPROVER_is_fresh (__CPROVER_return_value, 64))
__CPROVER_ensures (*pakt_size_out <= 64)
;
int psf_save_write_chunk (WRITE_CHUNKS * pchk, const SF_CHUNK_INFO * chunk_info)
__CPROVER_requires (__CPROVER_r_ok (pchk, sizeof (*pchk)) && __CPROVER_r_ok (chunk_info, sizeof (*chunk_info)))
__CPROVER_assigns (pchk->count, pchk->used, pchk->chunks)
;
static int write_header_c (SF_PRIVATE *psf, int calc_length)
__CPROVER_requires (__CPROVER_r_ok (psf, sizeof (SF_PRIVATE)))
__CPROVER_assigns (psf->error, psf->pipeoffset, psf->syserr, psf->dataoffset, psf->datalength, psf->filelength, psf->sf.frames, g_io_short)
;

static int alac_close (SF_PRIVATE *psf)
__CPROVER_requires (__CPROVER_is_fresh (psf, sizeof (SF_PRIVATE)) && __CPROVER_is_fresh (psf->codec_data, sizeof (ALAC_PRIVATE)))
__CPROVER_requires (PLAC->pakt_info == NULL || __CPROVER_is_fresh (PLAC->pakt_info, sizeof (PAKT_INFO) + 64))
__CPROVER_requires (PLAC->pakt_info == vin_pakt && psf->file.mode == vin_mode && (PLAC->enctmp != NULL) == (vin_have_tmp != 0))
__CPROVER_requires (__CPROVER_obeys_contract (psf->write_header, write_header_c))
__CPROVER_requires (g_reads == 0 && g_fclose_calls == 0 && g_remove_calls == 0 && 0 <= g_tmp_left && g_tmp_left <= (1LL << 40))
__CPROVER_assigns (__CPROVER_object_whole (psf->codec_data), psf->error, psf->pipeoffset, psf->syserr, psf->dataoffset, psf->datalength, psf->filelength, psf->sf.frames,
	psf->wchunks.count, psf->wchunks.used, psf->wchunks.chunks, g_io_short, g_tmp_left, g_fclose_calls, g_remove_calls, g_reads)
__CPROVER_frees (PLAC->pakt_info)
__CPROVER_ensures ((vin_mode == SFM_WRITE && vin_have_tmp) ==> (g_fclose_calls == 1 && g_remove_calls == 1)) /*@C15.scratch_file_closed_and_removed_for_every_io_outcome*/ /*@C16.scratch_file_closed_and_removed_for_every_io_outcome*/
__CPROVER_ensures (PLAC->pakt_info == NULL) /*@C16.packet_table_forgotten*/
__CPROVER_ensures (vin_pakt == NULL || __CPROVER_was_freed (vin_pakt)) /*@C16.packet_table_released*/ /*@C15.packet_table_released*/
__CPROVER_ensures (__CPROVER_return_value == 0) /*@C16.codec_close_reports_success*/
;

void h_alac_close (void)
{	SF_PRIVATE *psf ;
	void *keep_c [] = { (void *) write_header_c } ; (void) keep_c ;
	{ int a [2] ; sf_count_t l ; void *p ; vin_mode = a [0] ; vin_have_tmp = a [1] ; g_tmp_left = l ; vin_pakt = p ; }
	g_fclose_calls = 0 ; g_remove_calls = 0 ; g_io_short = 0 ; g_reads = 0 ;
	alac_close (psf) ;
	REACH (g_fclose_calls == 1, "scratch file copied and closed") ;
	CANARY () ;
}
