"""C18 (C07): float32_peak_update / double64_peak_update: per channel, the stored peak is the maximum of the old
peak and the magnitudes of that channel's samples in the buffer; its position is the frame of the FIRST sample that
reaches a new maximum (offset by write_current + indx) and is untouched when the buffer does not exceed the old
peak (ties keep the earlier position).  Nested inductive loop contracts; channel count enumerated."""

TEMPL = """#include "env_pre.h"
#include "%(file)s"
#include "ghost.h"

#define CH %(ch)d
int g_ch ;			/* arbitrary channel */
int g_fr ;			/* arbitrary frame inside the buffer */
double vin_oldval ; sf_count_t vin_oldpos, vin_wc, vin_indx ; int vin_count ;

#define ABS(x)		((%(T)s) __CPROVER_fabs%(fsuf)s (x))
#define ELEM(f, c)	(buffer [(f) * CH + (c)])
#define PK(c)		(psf->peak_info->peaks [c])
#define NEWMAX		(PK (g_ch).value > vin_oldval)
#define REL_POS		(PK (g_ch).position - vin_wc - vin_indx)

static void %(fn)s (SF_PRIVATE *psf, const %(T)s *buffer, int count, sf_count_t indx)
__CPROVER_requires (__CPROVER_is_fresh (psf, sizeof (SF_PRIVATE)) && psf->sf.channels == CH)
__CPROVER_requires (__CPROVER_is_fresh (psf->peak_info, sizeof (PEAK_INFO) + CH * 16))
__CPROVER_requires (CH <= count && count <= (1 << 28) && count %% CH == 0 && count == vin_count)
__CPROVER_requires (__CPROVER_is_fresh (buffer, (size_t) count * %(SZ)d))
__CPROVER_requires (0 <= indx && indx <= (1LL << 40) && 0 <= psf->write_current && psf->write_current <= (1LL << 40) && indx == vin_indx && psf->write_current == vin_wc)
__CPROVER_requires (0 <= g_ch && g_ch < CH && 0 <= g_fr && g_fr < count / CH)
__CPROVER_requires (PK (g_ch).value == vin_oldval && PK (g_ch).position == vin_oldpos && vin_oldval >= 0.0 && 0 <= vin_oldpos && vin_oldpos <= (1LL << 41))
/* finite samples (NaN is outside the property's domain): stated for the two elements the clauses speak about */
__CPROVER_requires (ELEM (g_fr, g_ch) == ELEM (g_fr, g_ch) && ELEM (0, g_ch) == ELEM (0, g_ch))
__CPROVER_assigns (__CPROVER_object_whole (psf->peak_info))
__CPROVER_ensures (PK (g_ch).value >= vin_oldval) /*@C18.peak_never_decreases*/
__CPROVER_ensures (PK (g_ch).value >= (double) ABS (ELEM (g_fr, g_ch))) /*@C18.peak_dominates_every_sample_of_its_channel*/
__CPROVER_ensures (!NEWMAX ==> PK (g_ch).position == vin_oldpos) /*@C18.tie_keeps_the_earlier_position*/ /*@C07.tie_keeps_the_earlier_position*/
__CPROVER_ensures (NEWMAX ==> (0 <= REL_POS && REL_POS < count / CH && PK (g_ch).value == (double) ABS (ELEM (REL_POS, g_ch)))) /*@C18.new_peak_is_attained_at_its_position*/
__CPROVER_ensures ((NEWMAX && g_fr < REL_POS) ==> (double) ABS (ELEM (g_fr, g_ch)) < PK (g_ch).value) /*@C18.position_is_first_occurrence*/
;

void h_unit (void)
{	SF_PRIVATE *psf ; const %(T)s *buffer ; int count ; sf_count_t indx ;
	{ int a, b, c ; double d ; sf_count_t e [3] ; g_ch = a ; g_fr = b ; vin_count = c ; vin_oldval = d ; vin_oldpos = e [0] ; vin_wc = e [1] ; vin_indx = e [2] ; }
	%(fn)s (psf, buffer, count, indx) ;
	REACH (vin_count > 3 * CH, "several frames") ;
	CANARY () ;
}
"""


def units():
    U = []
    for file, fn, T, SZ, fsuf in (("float32.c", "float32_peak_update", "float", 4, "f"), ("double64.c", "double64_peak_update", "double", 8, "")):
        for ch in (1, 2, 3):
            h = TEMPL % dict(file=file, fn=fn, T=T, SZ=SZ, ch=ch, fsuf=fsuf)
            absx = lambda e: "((%s) __CPROVER_fabs%s (%s))" % (T, fsuf, e)
            P = "(position == 0 ? chan : position)"
            inner = {"loop_id": 0, "assigns_locals": True,
                     "invariants": ("0 <= chan && chan < %d && chan <= k && k <= count + %d && (k - chan) %% %d == 0 && 0 <= position && position < count "
                                    "&& (position == 0 || (position %% %d == chan && position < k)) "
                                    "&& (chan == g_ch ==> %s == %s) "
                                    "&& ((chan == g_ch && g_fr * %d + chan < k) ==> %s >= %s) "
                                    "&& ((chan == g_ch && g_fr * %d + chan < %s) ==> %s < %s)")
                                   % (ch, ch, ch, ch, "%(fm)s", absx("buffer [%s]" % P), ch, "%(fm)s", absx("buffer [g_fr * %d + chan]" % ch),
                                      ch, P, absx("buffer [g_fr * %d + chan]" % ch), "%(fm)s"),
                     "decreases": "count + %d - k" % ch}
            fm = "fmaxval"
            inner["invariants"] = inner["invariants"].replace("%(fm)s", fm)
            PKg = "psf->peak_info->peaks [g_ch]"
            post = ("(0 <= " + PKg + ".position && " + PKg + ".position <= (1LL << 42) && %s.value >= vin_oldval && %s.value >= (double) %s "
                    "&& (!(%s.value > vin_oldval) ==> %s.position == vin_oldpos) "
                    "&& ((%s.value > vin_oldval) ==> (0 <= %s.position - vin_wc - vin_indx && %s.position - vin_wc - vin_indx < count / %d "
                    "&& %s.value == (double) %s)) "
                    "&& (((%s.value > vin_oldval) && g_fr < %s.position - vin_wc - vin_indx) ==> (double) %s < %s.value))"
                    % (PKg, PKg, absx("buffer [g_fr * %d + g_ch]" % ch), PKg, PKg, PKg, PKg, PKg, ch,
                       PKg, absx("buffer [(%s.position - vin_wc - vin_indx) * %d + g_ch]" % (PKg, ch)), PKg, PKg,
                       absx("buffer [g_fr * %d + g_ch]" % ch), PKg))
            outer = {"loop_id": 1, "assigns_locals": True, "assigns": "__CPROVER_object_whole (psf->peak_info)",
                     "invariants": "0 <= chan && chan <= %d && (g_ch < chan ==> %s) && (g_ch >= chan ==> (%s.value == vin_oldval && %s.position == vin_oldpos))"
                                   % (ch, post, PKg, PKg),
                     "decreases": "%d - chan" % ch}
            U.append({"name": "%s.%s.ch%d" % (file[:-2], fn, ch), "props": ["C18", "C07"], "harness_text": h,
                      "template": "units/gen_peak.py", "entry": "h_unit", "enforce": fn, "function": "%s:%s" % (file, fn),
                      "loops": {fn: [inner, outer]}, "timeout": 900, "kind": "enumerated(channels=%d)" % ch,
                      "tier": "quick" if ch == 2 else "thorough",
                      "note": "count is a whole number of frames (caller obligation, checked in the float32/double64 writer units)"})
    for ch in (1, 2, 3):
        for en in ("LITTLE", "BIG"):
            U.append({"name": "peak.wav_chunk_pair.ch%d.%s" % (ch, en.lower()), "props": ["C18", "C04"], "harness": "peak_pair.harness.c", "entry": "h_peak_pair", "dfcc": False,
                      "function": "wavlike.c:wavlike_write_peak_chunk + wavlike_read_peak_chunk (with common.c psf_binheader_writef/readf)",
                      "link_sources": ["common.c"], "defines": ["-DCH=%d" % ch, "-DENDIAN=SF_ENDIAN_" + en, "-include", "/verif/spec/abi_vaarg.h"],
                      "pre_gi_flags": ["--remove-function-body", "psf_log_printf"], "cbmc_flags": ["--object-bits", "9", "--unwind", "70"], "timeout": 900,
                      "tier": "quick" if (ch == 2 and en == "LITTLE") or (ch == 3 and en == "BIG") else "thorough",
                      "kind": "proof(pair lemma; channels and byte order enumerated; peak values and positions symbolic)",
                      "trusted": ["float32_{le,be}_{read,write} stand-ins equal to the native representation (proved for normal values in units ieee.float32_*)",
                                  "spec/abi_vaarg.h (variadic int arguments fetched as size_t)"]})
    return U
