/* C20: the portable IEEE-754 single precision serialisers of src/float32.c against the native representation.
** Plain lemmas over the REAL functions for every float value (full domain, no loops).  E1 models (exact for the
** arguments these functions pass): frexp for normal doubles, pow (2.0, n) for integer n -- both written on the bit
** pattern, as IEEE 754 defines them.
*/
#include "env_pre.h"
#include <math.h>
#ifndef NATIVE_REPLAY	/* the native replay runs on the real libm */
#define frexp(x, e)		verif_frexp ((x), (e))
#define pow(b, e)		verif_pow2 ((b), (e))
#endif
double verif_frexp (double x, int *e) ;
double verif_pow2 (double b, double e) ;
#include "float32.c"
#undef frexp
#undef pow
#include "ghost.h"

double verif_frexp (double x, int *e)
{	union { double d ; uint64_t u ; } v ; v.d = x ;
	int ef = (int) ((v.u >> 52) & 0x7ff) ;
	__CPROVER_assert (ef != 0 && ef != 0x7ff, "E1 frexp model: normal argument") ;
	*e = ef - 1022 ;
	v.u = (v.u & ~(0x7ffULL << 52)) | (1022ULL << 52) ;
	return v.d ;
}
double verif_pow2 (double b, double e)
{	__CPROVER_assert (b == 2.0 && e >= 0.0 && e <= 255.0 && e == (double) (int) e, "E1 pow model: 2 to a small integer power") ;
	union { double d ; uint64_t u ; } v ; v.u = (uint64_t) (1023 + (int) e) << 52 ;
	return v.d ;
}

#define IS_NORMAL_BITS(u)	((((u) >> 23) & 0xff) != 0 && (((u) >> 23) & 0xff) != 0xff)

void h_f32_write (void)
{	union { float f ; uint32_t u ; unsigned char b [4] ; } x ; INPUT (uint32_t, nd) ; x.u = nd ;
	__CPROVER_assume (IS_NORMAL_BITS (x.u)) ;
	unsigned char le [4], be [4] ;
	float32_le_write (x.f, le) ;
	float32_be_write (x.f, be) ;
	__CPROVER_assert (le [0] == x.b [0] && le [1] == x.b [1] && le [2] == x.b [2] && le [3] == x.b [3], "little-endian serialiser equals the native bytes for every normal value") ; /*@C20.float32_le_write_equals_native*/
	__CPROVER_assert (be [0] == x.b [3] && be [1] == x.b [2] && be [2] == x.b [1] && be [3] == x.b [0], "big-endian serialiser equals the native bytes reversed for every normal value") ; /*@C20.float32_be_write_equals_native*/
	CANARY () ;
}

void h_f32_read (void)
{	union { float f ; uint32_t u ; unsigned char b [4] ; } x ; INPUT (uint32_t, nd) ; x.u = nd ;
	__CPROVER_assume (IS_NORMAL_BITS (x.u)) ;
	unsigned char be [4] = { x.b [3], x.b [2], x.b [1], x.b [0] } ;
	union { float f ; uint32_t u ; } rl, rb ;
	rl.f = float32_le_read (x.b) ;
	rb.f = float32_be_read (be) ;
	__CPROVER_assert (rl.u == x.u, "little-endian deserialiser returns the native value of the bytes") ; /*@C20.float32_le_read_equals_native*/
	__CPROVER_assert (rb.u == x.u, "big-endian deserialiser returns the native value of the bytes") ; /*@C20.float32_be_read_equals_native*/
	CANARY () ;
}
