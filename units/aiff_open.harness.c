/* C16: aiff_open (src/aiff.c) installs the close hook that releases what the header parser allocates
** (paiff->markstr) BEFORE any header parsing or writing, so that every failing return path -- psf_open_file
** answers each of them with psf_close -- releases it.  The header parser, the header writer and the codec
** initialisers are replaced by contracts; the obligation is the precondition of the two header functions and the
** state aiff_open returns in.
*/
#include "env_pre.h"
#define psf_log_printf(...)		verif_nolog ()
#include "aiff.c"
void verif_nolog (void) { }
#include "ghost.h"
#include "io_contracts.h"

int g_hdr_read_calls, g_hdr_write_calls, g_init_calls ;
int vin_mode ; sf_count_t vin_filelength ;

/* may allocate paiff->markstr and psf->cues, may fail at any depth */
static int aiff_read_header (SF_PRIVATE *psf, COMM_CHUNK *comm_fmt)
__CPROVER_requires (__CPROVER_r_ok (psf, sizeof (SF_PRIVATE)) && __CPROVER_w_ok (comm_fmt, sizeof (COMM_CHUNK)))
__CPROVER_requires (psf->container_data != NULL && psf->container_close == aiff_close) /*@C16.close_hook_installed_before_header_parsing*/
__CPROVER_assigns (g_hdr_read_calls, psf->error, psf->sf, psf->dataoffset, psf->datalength, psf->bytewidth, psf->blockwidth, psf->endian, psf->cues, psf->instrument,
	psf->peak_info, psf->channel_map, psf->header.indx, psf->header.end, __CPROVER_object_whole (comm_fmt), __CPROVER_object_whole (psf->container_data))
__CPROVER_ensures (g_hdr_read_calls == __CPROVER_old (g_hdr_read_calls) + 1)
/* what a parser that returned 0 has established (C03 side, not the subject here) */
__CPROVER_ensures (0 <= psf->sf.frames && psf->sf.frames <= (1LL << 47) && 0 <= psf->dataoffset && psf->dataoffset <= (1LL << 50))
;
static int aiff_write_header (SF_PRIVATE *psf, int calc_length)
__CPROVER_requires (__CPROVER_r_ok (psf, sizeof (SF_PRIVATE)))
__CPROVER_requires (psf->container_data != NULL && psf->container_close == aiff_close) /*@C16.close_hook_installed_before_header_writing*/
__CPROVER_assigns (g_hdr_write_calls, psf->error, psf->dataoffset, psf->datalength, psf->header.indx, psf->header.end, psf->sf.frames, psf->filelength)
__CPROVER_ensures (g_hdr_write_calls == __CPROVER_old (g_hdr_write_calls) + 1 && 0 <= psf->sf.frames && psf->sf.frames <= (1LL << 47))
;
/* codec initialisers (other files): by assumption they leave the container's private block and close hook alone */
#define CODEC_INIT(decl)	decl \
	__CPROVER_requires (__CPROVER_r_ok (psf, sizeof (SF_PRIVATE))) \
	__CPROVER_assigns (g_init_calls, psf->error, psf->codec_data, psf->codec_close, psf->sf.frames, psf->sf.seekable, psf->datalength, psf->bytewidth, psf->blockwidth, psf->seek, psf->byterate) \
	__CPROVER_ensures (g_init_calls == __CPROVER_old (g_init_calls) + 1 && 0 <= psf->sf.frames && psf->sf.frames <= (1LL << 47)) ;
CODEC_INIT (int pcm_init (SF_PRIVATE *psf))
CODEC_INIT (int ulaw_init (SF_PRIVATE *psf))
CODEC_INIT (int alaw_init (SF_PRIVATE *psf))
CODEC_INIT (int float32_init (SF_PRIVATE *psf))
CODEC_INIT (int double64_init (SF_PRIVATE *psf))
CODEC_INIT (int dwvw_init (SF_PRIVATE *psf, int bitwidth))
CODEC_INIT (int aiff_ima_init (SF_PRIVATE *psf, int blockalign, int samplesperblock))
CODEC_INIT (int gsm610_init (SF_PRIVATE *psf))

int aiff_open (SF_PRIVATE *psf)
__CPROVER_requires (__CPROVER_is_fresh (psf, sizeof (SF_PRIVATE)) && psf->container_data == NULL && psf->container_close == NULL && psf->peak_info == NULL)
__CPROVER_requires (psf->file.mode == vin_mode && psf->filelength == vin_filelength && 1 <= psf->sf.channels && psf->sf.channels <= 1024
	&& 0 <= psf->sf.frames && psf->sf.frames <= (1LL << 47) && 0 <= psf->dataoffset && psf->dataoffset <= (1LL << 50))
__CPROVER_requires (g_hdr_read_calls == 0 && g_hdr_write_calls == 0 && g_init_calls == 0)
__CPROVER_assigns (__CPROVER_object_whole (psf), g_hdr_read_calls, g_hdr_write_calls, g_init_calls, __CPROVER_object_whole (&gio))
__CPROVER_ensures (psf->container_data != NULL ==> psf->container_close == aiff_close) /*@C16.private_block_never_returned_without_its_close_hook*/
__CPROVER_ensures (__CPROVER_return_value == 0 ==> (psf->container_data != NULL && g_init_calls == 1)) /*@C10.open_runs_one_codec_initialiser*/
__CPROVER_ensures ((vin_mode == SFM_READ && __CPROVER_return_value == 0) ==> (g_hdr_read_calls == 1 && g_hdr_write_calls == 0)) /*@C16.read_open_parses_once*/
;

void h_aiff_open (void)
{	SF_PRIVATE *psf ; int nd ; sf_count_t fl ;
	void *keep_c [] = { (void *) aiff_close } ; (void) keep_c ;
	vin_mode = nd ; vin_filelength = fl ;
	gio.io_short = 0 ; gio.fread_calls = 0 ; gio.fwrite_calls = 0 ; gio.fseek_calls = 0 ;
	int r = aiff_open (psf) ;
	REACH (r != 0 && g_hdr_read_calls == 1, "open fails after header parsing started") ;
	REACH (r == 0 && vin_mode == SFM_RDWR && g_hdr_read_calls == 1 && g_hdr_write_calls == 1, "read/write open of an existing file") ;
	CANARY () ;
}
