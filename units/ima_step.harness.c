/* C20 (C03): the IMA ADPCM block decoders of src/ima_adpcm.c (WAV and AIFF block layouts) against the reference
** algorithm of spec/ima_spec.h.  Plain lemma through the REAL decoders on a block that holds the header and the
** first packed group: header predictor, header step index (any byte) and the first codes are unconstrained, so the
** first two decode steps of every channel are compared with the reference for EVERY predictor x step index x code
** pair (the second step runs on the index the first one produced).  All loops are bounded by the block geometry
** fixed below and unwound completely.  What this does not show: that later iterations of the same loop body behave
** like the first two (they execute the same statements on the same kind of state).
*/
#include "env_pre.h"
#define psf_log_printf(...)		verif_nolog ()
#include "ima_adpcm.c"
void verif_nolog (void) { }
#include "ghost.h"
#include "ima_spec.h"

#ifndef CH
#define CH 1
#endif

/* the file: arbitrary bytes, arbitrary (short) delivery */
sf_count_t psf_fread (void *ptr, sf_count_t bytes, sf_count_t items, SF_PRIVATE *psf)
{	sf_count_t r_nd ; sf_count_t r = r_nd ;
	__CPROVER_assume (0 <= r && r <= items) ;
	/* the block buffer keeps its (unconstrained) harness content: equivalent to reading arbitrary bytes */
	return r ;
}
sf_count_t psf_fwrite (const void *ptr, sf_count_t bytes, sf_count_t items, SF_PRIVATE *psf) { return items ; }
sf_count_t psf_fseek (SF_PRIVATE *psf, sf_count_t offset, int whence) { return offset ; }
sf_count_t psf_ftell (SF_PRIVATE *psf) { sf_count_t nd ; return nd ; }
sf_count_t psf_get_filelen (SF_PRIVATE *psf) { sf_count_t nd ; return nd ; }

static SF_PRIVATE P ;
static struct { IMA_ADPCM_PRIVATE p ; short pad [4] ; } PM ;

#ifdef LAYOUT_WAV
#define BLOCKSIZE	(4 * CH + 4 * CH)		/* header + one group of 8 codes per channel */
#define SPB			3						/* decode two codes per channel */
static unsigned char block [BLOCKSIZE] ;
static short samples [9 * CH] ;
void h_ima_wav (void)
{	unsigned char nd [BLOCKSIZE] ;
	for (int k = 0 ; k < BLOCKSIZE ; k++) block [k] = nd [k] ;
	PM.p.channels = CH ; PM.p.blocksize = BLOCKSIZE ; PM.p.samplesperblock = SPB ; PM.p.blocks = 1 ; PM.p.blockcount = 0 ;
	PM.p.block = block ; PM.p.samples = samples ;
	wavlike_ima_decode_block (&P, &PM.p) ;
	for (int c = 0 ; c < CH ; c++)
	{	int pred0 = (short) (block [c * 4] | (block [c * 4 + 1] << 8)) ;
		int si0 = IMA_CLAMP_INDEX ((int) block [c * 4 + 2]) ;
		int code1 = block [4 * CH + 4 * c] & 15, code2 = (block [4 * CH + 4 * c] >> 4) & 15 ;
		int s1 = IMA_NEXT_SAMPLE (pred0, si0, code1) ;
		int si1 = IMA_NEXT_INDEX (si0, code1) ;
		int s2 = IMA_NEXT_SAMPLE (s1, si1, code2) ;
		__CPROVER_assert (samples [c] == pred0, "first sample of a block is the header predictor") ; /*@C20.ima_wav_block_header_sample*/
		__CPROVER_assert (samples [CH + c] == s1, "first decode step equals the reference step for every predictor, index and code") ; /*@C20.ima_wav_decode_step*/
		__CPROVER_assert (samples [2 * CH + c] == s2, "second decode step runs on the reference's next index") ; /*@C20.ima_wav_index_update*/
		} ;
	__CPROVER_assert (PM.p.blockcount == 1 && PM.p.samplecount == 0, "block accounting") ; /*@C20.ima_wav_block_accounting*/
	CANARY () ;
}
#endif

#ifdef LAYOUT_AIFF
#define BLOCKSIZE	3						/* 2 byte header + one byte = two codes */
#define SPB			2
static unsigned char block [34 * (CH - 1) + BLOCKSIZE] ;
static short samples [SPB * CH] ;
void h_ima_aiff (void)
{	unsigned char nd [sizeof (block)] ;
	for (unsigned k = 0 ; k < sizeof (block) ; k++) block [k] = nd [k] ;
	PM.p.channels = CH ; PM.p.blocksize = BLOCKSIZE ; PM.p.samplesperblock = SPB ; PM.p.blocks = CH ; PM.p.blockcount = 0 ;
	PM.p.block = block ; PM.p.samples = samples ;
	aiff_ima_decode_block (&P, &PM.p) ;
	for (int c = 0 ; c < CH ; c++)
	{	const unsigned char *b = block + 34 * c ;
		int pred0 = (short) ((b [0] << 8) | (b [1] & 0x80)) ;		/* upper nine bits of the predictor */
		int si0 = IMA_CLAMP_INDEX (b [1] & 0x7F) ;
		int code1 = b [2] & 15, code2 = (b [2] >> 4) & 15 ;
		int s1 = IMA_NEXT_SAMPLE (pred0, si0, code1) ;
		int si1 = IMA_NEXT_INDEX (si0, code1) ;
		int s2 = IMA_NEXT_SAMPLE (s1, si1, code2) ;
		__CPROVER_assert (samples [c] == s1, "first decode step equals the reference step for every predictor, index and code") ; /*@C20.ima_aiff_decode_step*/
		__CPROVER_assert (samples [CH + c] == s2, "second decode step runs on the reference's next index") ; /*@C20.ima_aiff_index_update*/
		} ;
	__CPROVER_assert (PM.p.blockcount == CH && PM.p.samplecount == 0, "block accounting") ; /*@C20.ima_aiff_block_accounting*/
	CANARY () ;
}
#endif

#ifdef TABLES
void h_ima_tables (void)
{	for (int k = 0 ; k < 89 ; k++)
		__CPROVER_assert (ima_step_size [k] == IMA_REF_STEP [k], "step size table equals the standard's") ; /*@C20.ima_step_table*/
	for (int k = 0 ; k < 16 ; k++)
		__CPROVER_assert (ima_indx_adjust [k] == IMA_REF_ADJ [k], "index adjustment table equals the standard's") ; /*@C20.ima_index_table*/
	int i ;
	__CPROVER_assert (clamp_ima_step_index (i) == IMA_CLAMP_INDEX (i), "index clamp for every int") ; /*@C20.ima_index_clamp*/
	CANARY () ;
}
#endif
