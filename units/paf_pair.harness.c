/* C01 (C04): PAF 24 bit block packing, writer against reader, through the REAL code: paf24_write_block packs the 10
** staged frames of every channel into the interleaved 3-byte block layout, paf24_read_block unpacks them.  For every
** sample whose low 8 bits are zero (the values a 24 bit file can hold in the library's 32 bit staging format), both
** byte orders, the unpacked block equals the staged one: the encoding is lossless, no sample moves to another frame
** or channel.  Channel count enumerated; the file is the block buffer itself (I/O stand-ins move nothing).
*/
#include "env_pre.h"
#define psf_log_printf(...)		verif_nolog ()
#include "paf.c"
void verif_nolog (void) { }
#include "ghost.h"

#ifndef CH
#define CH 2
#endif
#define NS	(PAF24_SAMPLES_PER_BLOCK * CH)

sf_count_t psf_fwrite (const void *ptr, sf_count_t bytes, sf_count_t items, SF_PRIVATE *psf) { return items ; }
sf_count_t psf_fread (void *ptr, sf_count_t bytes, sf_count_t items, SF_PRIVATE *psf) { return items ; }		/* the block buffer keeps what was packed */

static SF_PRIVATE P ;
static struct { PAF24_PRIVATE p ; int pad ; } PP ;
static int samples [NS], block [PAF24_BLOCK_SIZE * CH / 4 + 1], orig [NS] ;

void h_paf_pair (void)
{	int endian_nd ; int nd [NS] ;
	__CPROVER_assume (endian_nd == SF_ENDIAN_LITTLE || endian_nd == SF_ENDIAN_BIG) ;
	for (int k = 0 ; k < NS ; k++) { samples [k] = nd [k] & ~0xff ; orig [k] = samples [k] ; }
	P.endian = endian_nd ;
	PP.p.channels = CH ; PP.p.blocksize = PAF24_BLOCK_SIZE * CH ; PP.p.samples = samples ; PP.p.block = block ;
	PP.p.write_count = PAF24_SAMPLES_PER_BLOCK ; PP.p.write_block = 0 ; PP.p.sample_count = 0 ;
	paf24_write_block (&P, &PP.p) ;
	__CPROVER_assert (PP.p.write_block == 1 && PP.p.write_count == 0 && PP.p.sample_count == PAF24_SAMPLES_PER_BLOCK, "block accounting of the writer") ; /*@C01.paf_block_accounting*/ /*@C04.paf_block_accounting*/
	for (int k = 0 ; k < NS ; k++) samples [k] = 0x55555555 ;		/* the staging buffer is reused: nothing may survive in it */
	PP.p.read_block = 0 ; PP.p.read_count = 0 ;
	paf24_read_block (&P, &PP.p) ;
	GHOST_HAVOC () ; int g = g_idx ;
	if (0 <= g && g < NS)
		__CPROVER_assert (samples [g] == orig [g], "every 24 bit sample comes back at its frame and channel") ; /*@C01.paf24_pack_then_unpack_is_identity*/
	__CPROVER_assert (PP.p.read_block == 1 && PP.p.read_count == 0, "block accounting of the reader") ; /*@C01.paf_block_accounting*/
	CANARY () ;
}
