/* C06 / C08 / C09: sf_seek (src/sndfile.c) against the property statements:
**  - returns the requested absolute position, or -1 with an error set;
**  - whence | SFM_READ moves only the read pointer, | SFM_WRITE only the write pointer,
**    a plain whence moves the pointer(s) of the file mode;
**  - read mode admits targets in [0, frames], write and read/write mode any target >= 0;
**  - zero-offset SEEK_CUR reports the next frame and changes nothing;
**  - a failed call leaves both positions unchanged.
*/
#include "env_pre.h"
#include "sndfile.c"
#include "ghost.h"
#include "dispatch.h"

sf_count_t vin_frames, vin_rc, vin_wc, vin_offset ;
int vin_mode, vin_last_op, vin_whence, vin_seekable, vin_error ;

#define PSF ((SF_PRIVATE *) sndfile)

int psf_file_valid (SF_PRIVATE *psf)
__CPROVER_requires (__CPROVER_r_ok (psf, sizeof (SF_PRIVATE)))
__CPROVER_assigns ()
__CPROVER_ensures (__CPROVER_return_value == (psf->file.filedes >= 0 ? SF_TRUE : SF_FALSE))
;

#define OFF_MAX (1LL << 60)

#define HANDLE_OK	(__CPROVER_is_fresh (sndfile, sizeof (SF_PRIVATE)) \
	&& PSF->Magick == SNDFILE_MAGICK \
	&& 0 <= PSF->sf.frames && PSF->sf.frames <= FRAMES_MAX \
	&& 0 <= PSF->read_current && PSF->read_current <= FRAMES_MAX \
	&& 0 <= PSF->write_current && PSF->write_current <= FRAMES_MAX \
	&& (PSF->file.mode == SFM_READ || PSF->file.mode == SFM_WRITE || PSF->file.mode == SFM_RDWR) \
	&& (PSF->seek == NULL || __CPROVER_obeys_contract (PSF->seek, codec_seek_c)) \
	&& PSF->sf.frames == vin_frames && PSF->read_current == vin_rc && PSF->write_current == vin_wc \
	&& PSF->file.mode == vin_mode && PSF->last_op == vin_last_op && PSF->sf.seekable == vin_seekable && PSF->error == vin_error)

#define FILE_OK		(PSF->virtual_io != SF_FALSE || PSF->file.filedes >= 0)
#define WBASE		(whence & ~SFM_MASK)
#define WMODE		(whence & SFM_MASK)
#define KNOWN_WHENCE	(whence == SEEK_SET || whence == (SEEK_SET | SFM_READ) || whence == (SEEK_SET | SFM_WRITE) || whence == (SEEK_SET | SFM_RDWR) \
						|| whence == SEEK_CUR || whence == (SEEK_CUR | SFM_READ) || whence == (SEEK_CUR | SFM_WRITE) \
						|| whence == SEEK_END || whence == (SEEK_END | SFM_READ) || whence == (SEEK_END | SFM_WRITE))
#define MODE_MISMATCH	((WMODE == SFM_WRITE && vin_mode == SFM_READ) || (WMODE == SFM_READ && vin_mode == SFM_WRITE))
/* which pointer a SEEK_CUR is relative to */
#define CUR_BASE	(WMODE == SFM_READ ? vin_rc : WMODE == SFM_WRITE ? vin_wc : (vin_mode == SFM_READ ? vin_rc : vin_wc))
#define TARGET		(WBASE == SEEK_SET ? offset : WBASE == SEEK_CUR ? CUR_BASE + offset : vin_frames + offset)
#define IN_RANGE	(TARGET >= 0 && (vin_mode != SFM_READ || TARGET <= vin_frames))
/* effective mode of the movement */
#define EFF_MODE	(WMODE ? WMODE : vin_mode)
#define IS_TELL		(WBASE == SEEK_CUR && offset == 0 && WMODE != SFM_RDWR)
#define ENTERED		(sndfile != NULL && FILE_OK)
#define VALID_SEEK	(ENTERED && vin_seekable && !MODE_MISMATCH && KNOWN_WHENCE && IN_RANGE && PSF->seek != NULL)
#define UNCHANGED	(PSF->read_current == vin_rc && PSF->write_current == vin_wc && PSF->sf.frames == vin_frames)

sf_count_t sf_seek (SNDFILE *sndfile, sf_count_t offset, int whence)
__CPROVER_requires (sndfile == NULL || HANDLE_OK)
__CPROVER_requires (-OFF_MAX <= offset && offset <= OFF_MAX && offset == vin_offset && whence == vin_whence)
__CPROVER_assigns (sf_errno, __CPROVER_object_whole (&gd); sndfile != NULL: __CPROVER_object_whole (sndfile))
/* ---- invalid calls (C09) ---- */
__CPROVER_ensures (sndfile == NULL ==> (__CPROVER_return_value == 0 && sf_errno == SFE_BAD_SNDFILE_PTR)) /*@C09.seek_null_handle*/
__CPROVER_ensures ((ENTERED && !vin_seekable) ==> (__CPROVER_return_value == PSF_SEEK_ERROR && PSF->error == SFE_NOT_SEEKABLE && UNCHANGED)) /*@C09.seek_not_seekable*/
__CPROVER_ensures ((ENTERED && vin_seekable && MODE_MISMATCH) ==> (__CPROVER_return_value == PSF_SEEK_ERROR && PSF->error == SFE_WRONG_SEEK && UNCHANGED)) /*@C09.seek_wrong_mode*/
__CPROVER_ensures ((ENTERED && vin_seekable && !MODE_MISMATCH && !KNOWN_WHENCE) ==> (__CPROVER_return_value == PSF_SEEK_ERROR && PSF->error != 0 && UNCHANGED)) /*@C09.seek_unknown_whence*/
__CPROVER_ensures ((ENTERED && vin_seekable && !MODE_MISMATCH && KNOWN_WHENCE && !IS_TELL && !IN_RANGE) ==> (__CPROVER_return_value == PSF_SEEK_ERROR && PSF->error == SFE_BAD_SEEK && UNCHANGED)) /*@C09.seek_out_of_range*/
__CPROVER_ensures ((ENTERED && vin_seekable && !MODE_MISMATCH && KNOWN_WHENCE && !(IS_TELL && (WMODE || vin_mode != SFM_RDWR)) && IN_RANGE && PSF->seek == NULL) ==>
					(__CPROVER_return_value == PSF_SEEK_ERROR && PSF->error != 0 && UNCHANGED)) /*@C09.seek_unimplemented*/
__CPROVER_ensures ((ENTERED && __CPROVER_return_value == PSF_SEEK_ERROR) ==> PSF->error != 0) /*@C06.seek_failure_sets_error*/
__CPROVER_ensures ((ENTERED && __CPROVER_return_value == PSF_SEEK_ERROR) ==> UNCHANGED) /*@C09.failed_seek_changes_no_position*/
/* ---- tell (C06) ---- */
__CPROVER_ensures ((ENTERED && vin_seekable && !MODE_MISMATCH && IS_TELL && (WMODE || vin_mode != SFM_RDWR)) ==>
					(__CPROVER_return_value == CUR_BASE && UNCHANGED && g_seek_calls == 0 && PSF->last_op == vin_last_op)) /*@C06.tell_reports_next_frame_changes_nothing*/
__CPROVER_ensures ((ENTERED && vin_seekable && whence == SEEK_CUR && offset == 0 && vin_mode == SFM_RDWR) ==>
					((__CPROVER_return_value == vin_rc || __CPROVER_return_value == vin_wc || __CPROVER_return_value == PSF_SEEK_ERROR) && UNCHANGED)) /*@C06.tell_rdwr_changes_nothing*/
/* what a plain tell in read/write mode actually does (relied upon by the command.c units; see KF2) */
__CPROVER_ensures ((ENTERED && vin_seekable && whence == SEEK_CUR && offset == 0 && vin_mode == SFM_RDWR && __CPROVER_return_value != PSF_SEEK_ERROR) ==>
					(__CPROVER_return_value == vin_wc && PSF->read_current == vin_wc && PSF->write_current == vin_wc))
/* ---- successful seeks (C06, C08) ---- */
__CPROVER_ensures ((VALID_SEEK && !IS_TELL && __CPROVER_return_value != PSF_SEEK_ERROR) ==> __CPROVER_return_value == TARGET) /*@C06.seek_returns_requested_absolute_position*/
__CPROVER_ensures ((VALID_SEEK && !IS_TELL) ==> (g_seek_calls == 1 && g_seek_arg == TARGET && g_seek_mode == EFF_MODE)) /*@C06.codec_positioned_at_target*/ /*@C08.switching_pointer_repositions_the_file*/
__CPROVER_ensures ((VALID_SEEK && !IS_TELL && __CPROVER_return_value != PSF_SEEK_ERROR && EFF_MODE == SFM_READ) ==>
					(PSF->read_current == TARGET && PSF->write_current == vin_wc && PSF->last_op == SFM_READ)) /*@C08.read_seek_moves_only_read_pointer*/
__CPROVER_ensures ((VALID_SEEK && !IS_TELL && __CPROVER_return_value != PSF_SEEK_ERROR && EFF_MODE == SFM_WRITE) ==>
					(PSF->write_current == TARGET && PSF->read_current == vin_rc && PSF->last_op == SFM_WRITE)) /*@C08.write_seek_moves_only_write_pointer*/
__CPROVER_ensures ((VALID_SEEK && !IS_TELL && __CPROVER_return_value != PSF_SEEK_ERROR && EFF_MODE == SFM_RDWR) ==>
					(PSF->write_current == TARGET && PSF->read_current == TARGET)) /*@C08.plain_seek_moves_both_pointers*/
__CPROVER_ensures (sndfile != NULL ==> PSF->sf.frames == vin_frames) /*@C08.seek_never_changes_frame_count*/
__CPROVER_ensures ((VALID_SEEK && __CPROVER_return_value != PSF_SEEK_ERROR) ==> PSF->error == 0) /*@C09.successful_seek_leaves_no_error*/
;

void h_seek (void)
{	SNDFILE *sndfile ; sf_count_t offset ; int whence ;
	void *keep_c [] = { (void *) codec_seek_c } ; (void) keep_c ;
	{ sf_count_t a1, a2, a3, a4 ; int b1, b2, b3, b4, b5 ;
	  vin_frames = a1 ; vin_rc = a2 ; vin_wc = a3 ; vin_offset = a4 ; vin_mode = b1 ; vin_last_op = b2 ; vin_whence = b3 ; vin_seekable = b4 ; vin_error = b5 ; }
	g_seek_calls = 0 ; g_codec_calls = 0 ; g_hdr_calls = 0 ;
	sf_count_t r = sf_seek (sndfile, offset, whence) ;
	REACH (r > 0 && vin_whence == (SEEK_END | SFM_READ) && vin_mode == SFM_RDWR, "SEEK_END|SFM_READ in RDWR mode succeeds") ;
	REACH (r > 0 && vin_whence == SEEK_CUR && vin_offset == 0 && vin_mode == SFM_WRITE, "tell in write mode") ;
	REACH (r == -1 && g_seek_calls == 1, "codec seek fails") ;
	REACH (r > vin_frames && vin_mode == SFM_WRITE && sndfile != NULL, "seek past the end in write mode") ;
	CANARY () ;
}
