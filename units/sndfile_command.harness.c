/* C17 (C09, C12, C16, C18, C19): sf_command (src/sndfile.c).
**
** `command` and `datasize` are symbolic; `data` is NULL or a heap block of EXACTLY
** max(datasize,0) bytes, so CBMC's pointer checks are the statement "never reads or writes more
** than datasize bytes through data, never dereferences a NULL data pointer".  The handle is
** NULL or a well-formed SF_PRIVATE in any mode.  Callees are abstracted by contracts that state
** how many bytes of `data` they may touch; psf->command / psf->write_header obey the generic
** dispatch contracts.
*/
#include "env_pre.h"
#define psf_log_printf(psf, ...)	verif_log_printf (psf)
#define strlen(s)					verif_strlen (s)
#ifdef MODEL_MEMCPY
/* E1 memcpy model for symbolic lengths: checks that n bytes are readable at src and writable at dst (the C17
** obligation), then the destination object holds arbitrary bytes except that byte g_byte is copied */
#define memcpy(d, s, n)				verif_memcpy ((d), (s), (n))
void * verif_memcpy (void *dst, const void *src, size_t n) ;
#endif
size_t verif_strlen (const char *s) ;
/* E1 strncpy / strcpy models (symbolic lengths): bounds are checked, the destination is NOT known to be terminated */
#define strncpy(d, s, n)			verif_strncpy ((d), (s), (n))
char * verif_strncpy (char *dst, const char *src, size_t n) ;
#include "sndfile.c"
#include "ghost.h"
#include "dispatch.h"

#define PSF ((SF_PRIVATE *) sndfile)

/* input mirrors */
int vin_command, vin_datasize, vin_mode, vin_have_written, vin_norm_float, vin_norm_double, vin_clipping, vin_auto_header,
	vin_channels, vin_float_int_mult, vin_scale_int_float, vin_last_op, vin_data_null, vin_ieee_replace ;
sf_count_t vin_rc, vin_wc, vin_frames, vin_dataoffset ;
int *vin_channel_map ; int vin_id ;	/* vin_id: the channel id at the arbitrary position g_idx of a channel map passed in */

/* ---- E1: strlen of the buffer snprintf just filled.  verif_snprintf (env_stubs.h) cannot tell
** us where it put the terminator, so this model re-derives it: it returns some k with
** s[k] == 0 and k < the size snprintf was given; when snprintf was given size 0 nothing was
** terminated and the real strlen would read bytes the caller never handed over. ---- */
size_t g_fmt_size ;			/* size argument of the last snprintf on `data` */
const char *g_fmt_dst ;
#define VERIF_SNPRINTF_RECORD
#include "env_stubs.h"
char * verif_strncpy (char *dst, const char *src, size_t n)
{	if (n > 0)
	{	__CPROVER_assert (__CPROVER_w_ok (dst, n), "E1 strncpy: destination writable for n bytes") ;
		__CPROVER_havoc_object (dst) ;
		} ;
	if (dst == g_fmt_dst) { g_fmt_dst = NULL ; g_fmt_size = 0 ; }	/* no terminator guaranteed */
	return dst ;
}
size_t verif_strlen (const char *s)
{	__CPROVER_assert (s == g_fmt_dst, "E1 strlen model: only applied to the buffer just formatted") ;
	__CPROVER_assert (g_fmt_size >= 1, "C17.string_commands_terminate_within_datasize: strlen reads a buffer that snprintf (size 0) never terminated") ;
	size_t k_nd ; size_t k = k_nd ;
	__CPROVER_assume (k < g_fmt_size) ;
	__CPROVER_assume (s [k] == 0) ;
	return k ;
}

#ifdef MODEL_MEMCPY
size_t g_byte ;
void * verif_memcpy (void *dst, const void *src, size_t n)
{	if (n > 0)
	{	__CPROVER_assert (__CPROVER_r_ok (src, n), "E1 memcpy: source readable for n bytes") ;
		__CPROVER_assert (__CPROVER_w_ok (dst, n), "E1 memcpy: destination writable for n bytes") ;
		__CPROVER_havoc_object (dst) ;
		if (g_byte < n)
			((unsigned char *) dst) [g_byte] = ((const unsigned char *) src) [g_byte] ;
		} ;
	return dst ;
}
#endif

/* ---- callees by contract ---- */
void verif_log_printf (SF_PRIVATE *psf)
__CPROVER_requires (psf == NULL || __CPROVER_r_ok (psf, sizeof (SF_PRIVATE)))
__CPROVER_assigns (psf != NULL: psf->parselog.indx, __CPROVER_object_upto (psf->parselog.buf, sizeof (psf->parselog.buf)))
;
int psf_file_valid (SF_PRIVATE *psf)
__CPROVER_requires (__CPROVER_r_ok (psf, sizeof (SF_PRIVATE)))
__CPROVER_assigns ()
__CPROVER_ensures (__CPROVER_return_value == (psf->file.filedes >= 0 ? SF_TRUE : SF_FALSE))
;
const char * sf_version_string (void)
__CPROVER_assigns ()
__CPROVER_ensures (__CPROVER_return_value != NULL)
;
#define FMT_GETTER(name)	int name (SF_FORMAT_INFO *data) \
	__CPROVER_requires (__CPROVER_w_ok (data, sizeof (SF_FORMAT_INFO))) \
	__CPROVER_assigns (__CPROVER_object_from (data)) ;
FMT_GETTER (psf_get_format_simple)
FMT_GETTER (psf_get_format_major)
FMT_GETTER (psf_get_format_subtype)
FMT_GETTER (psf_get_format_info)
#define FMT_COUNT(name)		int name (void) __CPROVER_assigns () __CPROVER_ensures (__CPROVER_return_value >= 0) ;
FMT_COUNT (psf_get_format_simple_count)
FMT_COUNT (psf_get_format_major_count)
FMT_COUNT (psf_get_format_subtype_count)

/* signal-max family (enforced in the command.c units): pure apart from the error code and the I/O
** bookkeeping; write exactly 1 (resp. channels) doubles */
double psf_calc_signal_max (SF_PRIVATE *psf, int normalize)
__CPROVER_requires (__CPROVER_r_ok (psf, sizeof (SF_PRIVATE)))
__CPROVER_assigns (psf->error, psf->pipeoffset, psf->last_op)
;
int psf_calc_max_all_channels (SF_PRIVATE *psf, double *peaks, int normalize)
__CPROVER_requires (__CPROVER_r_ok (psf, sizeof (SF_PRIVATE)) && psf->sf.channels >= 1)
__CPROVER_requires (__CPROVER_w_ok (peaks, (size_t) psf->sf.channels * 8))
__CPROVER_assigns (psf->error, psf->pipeoffset, psf->last_op, __CPROVER_object_from (peaks))
;
int psf_get_signal_max (SF_PRIVATE *psf, double *peak)
__CPROVER_requires (__CPROVER_r_ok (psf, sizeof (SF_PRIVATE)))
__CPROVER_requires (__CPROVER_w_ok (peak, 8))
__CPROVER_assigns (*peak)
;
int psf_get_max_all_channels (SF_PRIVATE *psf, double *peaks)
__CPROVER_requires (__CPROVER_r_ok (psf, sizeof (SF_PRIVATE)) && psf->sf.channels >= 1)
__CPROVER_requires (__CPROVER_w_ok (peaks, (size_t) psf->sf.channels * 8))
__CPROVER_assigns (__CPROVER_object_from (peaks))
;
/* metadata setters/getters: touch at most datasize bytes of data */
int broadcast_var_set (SF_PRIVATE *psf, const SF_BROADCAST_INFO * data, size_t datasize)
__CPROVER_requires (__CPROVER_r_ok (psf, sizeof (SF_PRIVATE)))
__CPROVER_requires (data == NULL || __CPROVER_r_ok (data, datasize))
__CPROVER_assigns (psf->error, psf->broadcast_16k)
;
int broadcast_var_get (SF_PRIVATE *psf, SF_BROADCAST_INFO * data, size_t datasize)
__CPROVER_requires (__CPROVER_r_ok (psf, sizeof (SF_PRIVATE)))
__CPROVER_requires (data != NULL && __CPROVER_w_ok (data, datasize))
__CPROVER_assigns (datasize > 0: __CPROVER_object_from (data))
;
int cart_var_set (SF_PRIVATE *psf, const SF_CART_INFO * data, size_t datasize)
__CPROVER_requires (__CPROVER_r_ok (psf, sizeof (SF_PRIVATE)))
__CPROVER_requires (data == NULL || __CPROVER_r_ok (data, datasize))
__CPROVER_assigns (psf->error, psf->cart_16k)
;
int cart_var_get (SF_PRIVATE *psf, SF_CART_INFO * data, size_t datasize)
__CPROVER_requires (__CPROVER_r_ok (psf, sizeof (SF_PRIVATE)))
__CPROVER_requires (data != NULL && __CPROVER_w_ok (data, datasize))
__CPROVER_assigns (datasize > 0: __CPROVER_object_from (data))
;
void psf_get_cues (SF_PRIVATE * psf, void * data, size_t datasize)
__CPROVER_requires (__CPROVER_r_ok (psf, sizeof (SF_PRIVATE)) && psf->cues != NULL)
__CPROVER_requires (datasize >= 4 && __CPROVER_w_ok (data, datasize))
__CPROVER_assigns (__CPROVER_object_from (data))
;
SF_CUES * psf_cues_dup (const void * ptr, size_t datasize)
__CPROVER_requires (datasize >= 4 && __CPROVER_r_ok (ptr, datasize))
__CPROVER_assigns ()
__CPROVER_ensures (__CPROVER_return_value == NULL || __CPROVER_is_fresh (__CPROVER_return_value, 4))
;
SF_INSTRUMENT * psf_instrument_alloc (void)
__CPROVER_assigns ()
__CPROVER_ensures (__CPROVER_return_value == NULL || __CPROVER_is_fresh (__CPROVER_return_value, sizeof (SF_INSTRUMENT)))
;
int dither_init (SF_PRIVATE *psf, int mode)
__CPROVER_requires (__CPROVER_r_ok (psf, sizeof (SF_PRIVATE)))
__CPROVER_assigns (psf->error, psf->dither, psf->read_short, psf->read_int, psf->read_float, psf->read_double, psf->write_short, psf->write_int, psf->write_float, psf->write_double)
;
#define CODEC_REINIT(name)	int name (SF_PRIVATE *psf) \
	__CPROVER_requires (__CPROVER_r_ok (psf, sizeof (SF_PRIVATE))) \
	__CPROVER_assigns (psf->error, psf->blockwidth, psf->datalength, psf->sf.frames, psf->peak_info, psf->read_short, psf->read_int, psf->read_float, psf->read_double, psf->write_short, psf->write_int, psf->write_float, psf->write_double) ;
CODEC_REINIT (float32_init)
CODEC_REINIT (double64_init)

/* ghost record of the positioning / truncation calls a command makes (SFC_FILE_TRUNCATE clauses, C08) */
struct trunc_ghost { sf_count_t seek_arg, seek_ret, fseek_ret, trunc_len ; int seek_whence, seek_calls, trunc_calls, trunc_ret ; } gt ;
sf_count_t vin_trunc_pos ;

sf_count_t sf_seek (SNDFILE *sndfile, sf_count_t offset, int whence)
__CPROVER_requires (sndfile != NULL && __CPROVER_r_ok (sndfile, sizeof (SF_PRIVATE)))
__CPROVER_assigns (PSF->error, PSF->read_current, PSF->write_current, PSF->last_op, PSF->pipeoffset, gt.seek_arg, gt.seek_ret, gt.seek_whence, gt.seek_calls)
__CPROVER_ensures (gt.seek_arg == offset && gt.seek_whence == whence && gt.seek_ret == __CPROVER_return_value && gt.seek_calls == __CPROVER_old (gt.seek_calls) + 1)
;
sf_count_t psf_fseek (SF_PRIVATE *psf, sf_count_t offset, int whence)
__CPROVER_requires (__CPROVER_r_ok (psf, sizeof (SF_PRIVATE)))
__CPROVER_assigns (psf->error, psf->pipeoffset, gt.fseek_ret)
__CPROVER_ensures (gt.fseek_ret == __CPROVER_return_value)
;
int psf_ftruncate (SF_PRIVATE *psf, sf_count_t len)
__CPROVER_requires (__CPROVER_r_ok (psf, sizeof (SF_PRIVATE)))
__CPROVER_assigns (psf->error, gt.trunc_len, gt.trunc_calls, gt.trunc_ret)
__CPROVER_ensures (gt.trunc_len == len && gt.trunc_calls == __CPROVER_old (gt.trunc_calls) + 1 && gt.trunc_ret == __CPROVER_return_value)
;
/* container command hook: touches at most datasize bytes of data (generic contract, enforced on
** wav_command / aiff_command / ... in their units) */
int container_command_c (SF_PRIVATE *psf, int command, void *data, int datasize)
__CPROVER_requires (__CPROVER_r_ok (psf, sizeof (SF_PRIVATE)))
__CPROVER_requires (data == NULL || datasize <= 0 || __CPROVER_w_ok (data, (size_t) datasize))
__CPROVER_assigns (psf->error; (data != NULL && datasize > 0): __CPROVER_object_from (data))
;

#ifdef FIX_CH
#define CH_OK(c)	((c) == FIX_CH)
#else
#define CH_OK(c)	1
#endif
#ifndef DATASIZE_MAX
#define DATASIZE_MAX 69632
#endif
#define OWNED(p, n)		((p) == NULL || __CPROVER_is_fresh ((p), (n)))

#define HANDLE_OK	(__CPROVER_is_fresh (sndfile, sizeof (SF_PRIVATE)) \
	&& PSF->Magick == SNDFILE_MAGICK && 1 <= PSF->sf.channels && PSF->sf.channels <= 1024 && PSF->sf.channels == vin_channels && CH_OK (PSF->sf.channels) \
	&& (PSF->file.mode == SFM_READ || PSF->file.mode == SFM_WRITE || PSF->file.mode == SFM_RDWR) \
	&& (PSF->command == NULL || __CPROVER_obeys_contract (PSF->command, container_command_c)) \
	&& (PSF->write_header == NULL || __CPROVER_obeys_contract (PSF->write_header, container_write_header_c)) \
	&& OWNED (PSF->peak_info, sizeof (PEAK_INFO)) && OWNED (PSF->loop_info, sizeof (SF_LOOP_INFO)) \
	&& OWNED (PSF->instrument, sizeof (SF_INSTRUMENT)) && OWNED (PSF->channel_map, (size_t) PSF->sf.channels * 4) \
	&& OWNED (PSF->cues, 4) \
	&& PSF->file.mode == vin_mode && PSF->have_written == vin_have_written && PSF->norm_float == vin_norm_float \
	&& PSF->norm_double == vin_norm_double && PSF->add_clipping == vin_clipping && PSF->auto_header == vin_auto_header \
	&& PSF->float_int_mult == vin_float_int_mult && PSF->scale_int_float == vin_scale_int_float && PSF->last_op == vin_last_op \
	&& PSF->read_current == vin_rc && PSF->write_current == vin_wc && PSF->sf.frames == vin_frames && PSF->dataoffset == vin_dataoffset \
	&& PSF->ieee_replace == vin_ieee_replace && PSF->channel_map == vin_channel_map)

#define FILE_OK		(PSF->virtual_io != SF_FALSE || PSF->file.filedes >= 0)

/* commands that only query information */
#define IS_QUERY(c)	((c) == SFC_GET_LIB_VERSION || (c) == SFC_GET_LOG_INFO || (c) == SFC_GET_CURRENT_SF_INFO || (c) == SFC_GET_NORM_DOUBLE \
	|| (c) == SFC_GET_NORM_FLOAT || (c) == SFC_GET_SIMPLE_FORMAT_COUNT || (c) == SFC_GET_SIMPLE_FORMAT || (c) == SFC_GET_FORMAT_INFO \
	|| (c) == SFC_GET_FORMAT_MAJOR_COUNT || (c) == SFC_GET_FORMAT_MAJOR || (c) == SFC_GET_FORMAT_SUBTYPE_COUNT || (c) == SFC_GET_FORMAT_SUBTYPE \
	|| (c) == SFC_GET_SIGNAL_MAX || (c) == SFC_GET_MAX_ALL_CHANNELS || (c) == SFC_GET_EMBED_FILE_INFO || (c) == SFC_GET_CLIPPING \
	|| (c) == SFC_GET_INSTRUMENT || (c) == SFC_GET_LOOP_INFO || (c) == SFC_GET_BROADCAST_INFO || (c) == SFC_GET_CHANNEL_MAP_INFO \
	|| (c) == SFC_RAW_DATA_NEEDS_ENDSWAP || (c) == SFC_GET_CUE_COUNT || (c) == SFC_GET_CUE || (c) == SFC_GET_CART_INFO \
	|| (c) == SFC_CALC_SIGNAL_MAX || (c) == SFC_CALC_NORM_SIGNAL_MAX || (c) == SFC_CALC_MAX_ALL_CHANNELS || (c) == SFC_CALC_NORM_MAX_ALL_CHANNELS)
#define IS_CALC(c)	((c) == SFC_CALC_SIGNAL_MAX || (c) == SFC_CALC_NORM_SIGNAL_MAX || (c) == SFC_CALC_MAX_ALL_CHANNELS || (c) == SFC_CALC_NORM_MAX_ALL_CHANNELS)

#define SETTINGS_UNCHANGED	(PSF->norm_float == vin_norm_float && PSF->norm_double == vin_norm_double && PSF->add_clipping == vin_clipping \
	&& PSF->auto_header == vin_auto_header && PSF->float_int_mult == vin_float_int_mult && PSF->scale_int_float == vin_scale_int_float \
	&& PSF->have_written == vin_have_written && PSF->sf.frames == vin_frames && PSF->dataoffset == vin_dataoffset \
	&& PSF->file.mode == vin_mode && PSF->sf.channels == vin_channels && PSF->ieee_replace == vin_ieee_replace)
#define POSITIONS_UNCHANGED	(PSF->read_current == vin_rc && PSF->write_current == vin_wc)

int sf_command (SNDFILE *sndfile, int command, void *data, int datasize)
__CPROVER_requires (sndfile == NULL || HANDLE_OK)
/* datasize bounded by 64 KiB + 4 KiB (largest documented structure is 16 KiB + header); the recursive
** re-entry of the two forwarding commands is the only call with command != vin_command */
__CPROVER_requires ((command == vin_command || command == SFC_SET_COMPRESSION_LEVEL || command == SFC_SET_OGG_PAGE_LATENCY) && datasize == vin_datasize && 0 <= datasize && datasize <= DATASIZE_MAX)
__CPROVER_requires (data == NULL || __CPROVER_is_fresh (data, datasize > 0 ? (size_t) datasize : 0))
__CPROVER_requires ((data == NULL) == (vin_data_null != 0))
__CPROVER_requires ((command == SFC_SET_CHANNEL_MAP_INFO && data != NULL && 0 <= g_idx && g_idx < 4096 && (g_idx + 1) * 4 <= datasize) ==> ((const int *) data) [g_idx] == vin_id)
__CPROVER_requires ((command == SFC_FILE_TRUNCATE && data != NULL && datasize == 8) ==> *((sf_count_t *) data) == vin_trunc_pos)
__CPROVER_requires (gt.trunc_calls == 0 && gt.seek_calls == 0)
__CPROVER_assigns (sf_errno, g_fmt_size, g_fmt_dst, __CPROVER_object_whole (&gd), __CPROVER_object_whole (&gt); sndfile != NULL: __CPROVER_object_whole (sndfile); (data != NULL && datasize > 0): __CPROVER_object_whole (data);
	(sndfile != NULL && PSF->instrument != NULL): __CPROVER_object_whole (PSF->instrument))
__CPROVER_frees (sndfile != NULL: PSF->peak_info, PSF->channel_map)
/* queries are pure (C17): settings, metadata pointers and - except for the CALC family, whose position
** restoration is the obligation of psf_calc_* (C18 units) - the positions are what they were */
__CPROVER_ensures ((sndfile != NULL && IS_QUERY (vin_command)) ==> SETTINGS_UNCHANGED) /*@C17.query_leaves_settings*/
__CPROVER_ensures ((sndfile != NULL && IS_QUERY (vin_command) && !IS_CALC (vin_command)) ==> (POSITIONS_UNCHANGED && PSF->last_op == vin_last_op)) /*@C17.query_leaves_positions*/
__CPROVER_ensures ((sndfile != NULL && IS_QUERY (vin_command)) ==> (g_hdr_calls == 0 && g_codec_calls == 0)) /*@C17.query_does_no_io_through_the_container*/
/* a rejected setter changes nothing it guards (C09) */
__CPROVER_ensures ((sndfile != NULL && FILE_OK && vin_have_written && (vin_command == SFC_SET_CUE || vin_command == SFC_SET_INSTRUMENT || vin_command == SFC_SET_CHANNEL_MAP_INFO)) ==>
					(__CPROVER_return_value == SF_FALSE && PSF->error == SFE_CMD_HAS_DATA && g_hdr_calls == 0)) /*@C12.metadata_after_audio_is_refused*/
__CPROVER_ensures ((sndfile != NULL && FILE_OK && vin_command == SFC_SET_CHANNEL_MAP_INFO && !vin_have_written && !vin_data_null && vin_datasize == 4 * vin_channels
					&& 0 <= g_idx && g_idx < vin_channels && (vin_id <= SF_CHANNEL_MAP_INVALID || vin_id >= SF_CHANNEL_MAP_MAX)) ==>
					(__CPROVER_return_value == SF_FALSE && PSF->error == SFE_BAD_COMMAND_PARAM && PSF->channel_map == vin_channel_map)) /*@C09.rejected_channel_map_keeps_the_stored_one*/ /*@C12.rejected_channel_map_keeps_the_stored_one*/
/* SFC_FILE_TRUNCATE (C08): positions at the requested frame, makes it the frame count, cuts the file at the byte position that led to;
** nothing is cut when the positioning fails or the handle cannot write */
#define TRUNC_CALL	(sndfile != NULL && FILE_OK && vin_command == SFC_FILE_TRUNCATE && (vin_mode == SFM_WRITE || vin_mode == SFM_RDWR) && !vin_data_null && vin_datasize == 8)
__CPROVER_ensures (TRUNC_CALL ==> (gt.seek_calls == 1 && gt.seek_arg == vin_trunc_pos && gt.seek_whence == SEEK_SET)) /*@C08.truncate_positions_at_the_requested_frame*/
__CPROVER_ensures ((TRUNC_CALL && gt.seek_ret == vin_trunc_pos) ==>
					(PSF->sf.frames == vin_trunc_pos && gt.trunc_calls == 1 && gt.trunc_len == gt.fseek_ret && __CPROVER_return_value == gt.trunc_ret)) /*@C08.truncate_cuts_at_the_requested_frame*/
__CPROVER_ensures ((TRUNC_CALL && gt.seek_ret != vin_trunc_pos) ==> (gt.trunc_calls == 0 && PSF->sf.frames == vin_frames)) /*@C08.failed_positioning_truncates_nothing*/ /*@C09.failed_positioning_truncates_nothing*/
__CPROVER_ensures ((sndfile != NULL && FILE_OK && vin_command == SFC_FILE_TRUNCATE && vin_mode == SFM_READ) ==> (gt.trunc_calls == 0 && PSF->sf.frames == vin_frames)) /*@C08.read_handle_is_never_truncated*/ /*@C09.read_handle_is_never_truncated*/
/* the header is rewritten exactly once by the commands that promise it (C11) */
__CPROVER_ensures ((sndfile != NULL && FILE_OK && vin_command == SFC_UPDATE_HEADER_NOW) ==> g_hdr_calls == (PSF->write_header != NULL ? 1 : 0)) /*@C11.update_header_now_calls_write_header_once*/
__CPROVER_ensures ((sndfile != NULL && FILE_OK && vin_command == SFC_SET_UPDATE_HEADER_AUTO) ==> (PSF->auto_header == (vin_datasize ? SF_TRUE : SF_FALSE) && __CPROVER_return_value == PSF->auto_header)) /*@C11.auto_header_flag*/
/* settings commands set exactly their field and return the old value (C02 plumbing) */
__CPROVER_ensures ((sndfile != NULL && FILE_OK && vin_command == SFC_SET_NORM_FLOAT) ==> (__CPROVER_return_value == vin_norm_float && PSF->norm_float == (vin_datasize ? SF_TRUE : SF_FALSE) && PSF->norm_double == vin_norm_double && PSF->add_clipping == vin_clipping)) /*@C02.set_norm_float*/
__CPROVER_ensures ((sndfile != NULL && FILE_OK && vin_command == SFC_SET_NORM_DOUBLE) ==> (__CPROVER_return_value == vin_norm_double && PSF->norm_double == (vin_datasize ? SF_TRUE : SF_FALSE) && PSF->norm_float == vin_norm_float && PSF->add_clipping == vin_clipping)) /*@C02.set_norm_double*/
__CPROVER_ensures ((sndfile != NULL && FILE_OK && vin_command == SFC_SET_CLIPPING) ==> (PSF->add_clipping == (vin_datasize ? SF_TRUE : SF_FALSE) && __CPROVER_return_value == PSF->add_clipping && PSF->norm_float == vin_norm_float && PSF->norm_double == vin_norm_double)) /*@C02.set_clipping*/
__CPROVER_ensures ((sndfile != NULL && FILE_OK && vin_command == SFC_GET_CLIPPING) ==> __CPROVER_return_value == vin_clipping) /*@C17.get_clipping*/
__CPROVER_ensures ((sndfile != NULL && FILE_OK && vin_command == SFC_GET_NORM_FLOAT) ==> __CPROVER_return_value == vin_norm_float) /*@C17.get_norm_float*/
__CPROVER_ensures ((sndfile != NULL && FILE_OK && vin_command == SFC_GET_NORM_DOUBLE) ==> __CPROVER_return_value == vin_norm_double) /*@C17.get_norm_double*/
;

void h_command (void)
{	SNDFILE *sndfile ; int command ; void *data ; int datasize ;
	void *keep_c [] = { (void *) container_command_c, (void *) container_write_header_c } ; (void) keep_c ;
	{ int b [16] ; sf_count_t a [4] ;
	  vin_command = b [0] ; vin_datasize = b [1] ; vin_mode = b [2] ; vin_have_written = b [3] ; vin_norm_float = b [4] ; vin_norm_double = b [5] ;
	  vin_clipping = b [6] ; vin_auto_header = b [7] ; vin_channels = b [8] ; vin_float_int_mult = b [9] ; vin_scale_int_float = b [10] ;
	  vin_last_op = b [11] ; vin_data_null = b [12] ; vin_ieee_replace = b [13] ;
	  vin_rc = a [0] ; vin_wc = a [1] ; vin_frames = a [2] ; vin_dataoffset = a [3] ; { int *cm_nd ; vin_channel_map = cm_nd ; vin_id = b [14] ; } }
	GHOST_HAVOC () ;
	g_hdr_calls = 0 ; g_codec_calls = 0 ; g_seek_calls = 0 ; g_fmt_size = 0 ; g_fmt_dst = NULL ;
	{ sf_count_t tp ; vin_trunc_pos = tp ; gt.trunc_calls = 0 ; gt.seek_calls = 0 ; }
#ifdef CMD_FIXED
	/* one unit per command id of the public header: the id is concrete (symbolic execution prunes the other
	** cases), datasize / data / handle state stay symbolic */
	command = CMD_FIXED ; vin_command = CMD_FIXED ;
#endif
#ifdef DATASIZE_FIXED
	/* channel-proportional commands: malloc/memcpy of a symbolic size are out of reach, so the size argument is
	** enumerated too (the accepted size, its neighbours, 0 and a large one) */
	datasize = DATASIZE_FIXED ; vin_datasize = DATASIZE_FIXED ;
#endif
#ifdef CMD_GROUP
	__CPROVER_assume (CMD_GROUP (vin_command)) ;
#endif
	int r = sf_command (sndfile, command, data, datasize) ;
#ifndef CMD_FIXED
	REACH (vin_command == SFC_GET_LOG_INFO && sndfile != NULL && r > 0, "string command with output") ;
	REACH (vin_command == SFC_SET_CHANNEL_MAP_INFO && r != 0, "channel map accepted") ;
	REACH (vin_command == 0x7777 && sndfile != NULL, "undefined command id") ;
#endif
#if !defined (DATASIZE_FIXED) || DATASIZE_FIXED > 0
	REACH (sndfile != NULL && vin_data_null == 0 && vin_datasize > 0, "handle and data present") ;
#endif
	CANARY () ;
}
