"""C05 / C15 / C18 / C07: the read/write implementations of src/float32.c and src/double64.c (host_* and
replace_*) against the implementation side of the dispatch contract (counts, bounds, termination under every
I/O outcome), plus the caller obligations of the peak update: it is called with whole frames, starting on a
frame boundary, with the frame offset of the chunk inside this call (so that PEAK positions do not depend on how
the staging buffer splits the data).  Channel count enumerated."""
import os, re
from gen_pcm_rw import kernel_sigs, kernel_frame_contract, SZ, REPO

HEAD = """#include "env_pre.h"
/* E1 memcpy model for symbolic lengths: both ranges are checked, the destination object then holds arbitrary bytes */
#define memcpy(d, s, n)		verif_memcpy ((d), (s), (n))
void * verif_memcpy (void *dst, const void *src, size_t n) ;
#include "%(file)s"
#include "ghost.h"

#define CH %(ch)d
#define LEN_MAX (1LL << 28)
int g_io_short ;
sf_count_t g_io_total ;		/* items transferred by psf_fread / psf_fwrite so far in this call */
sf_count_t g_peak_items ;	/* items handed to the peak update so far in this call */
sf_count_t vin_len ;

void * verif_memcpy (void *dst, const void *src, size_t n)
{	if (n > 0)
	{	__CPROVER_assert (__CPROVER_r_ok (src, n), "E1 memcpy: source readable for n bytes") ;
		__CPROVER_assert (__CPROVER_w_ok (dst, n), "E1 memcpy: destination writable for n bytes") ;
		__CPROVER_havoc_object (dst) ;
		} ;
	return dst ;
}

sf_count_t psf_fread (void *ptr, sf_count_t bytes, sf_count_t items, SF_PRIVATE *psf)
__CPROVER_requires (bytes > 0 && bytes <= 8 && items >= 0 && items <= LEN_MAX && 0 <= g_io_total && g_io_total <= LEN_MAX)
__CPROVER_requires (items == 0 || __CPROVER_w_ok (ptr, (size_t) (bytes * items)))
__CPROVER_requires (__CPROVER_r_ok (psf, sizeof (SF_PRIVATE)))
__CPROVER_assigns (psf->error, psf->pipeoffset, psf->syserr, g_io_short, g_io_total; items > 0: __CPROVER_object_from (ptr))
__CPROVER_ensures (0 <= __CPROVER_return_value && __CPROVER_return_value <= items && g_io_total == __CPROVER_old (g_io_total) + __CPROVER_return_value)
__CPROVER_ensures (__CPROVER_return_value == items ? (psf->error == __CPROVER_old (psf->error) && g_io_short == __CPROVER_old (g_io_short)) : g_io_short == 1)
;
sf_count_t psf_fwrite (const void *ptr, sf_count_t bytes, sf_count_t items, SF_PRIVATE *psf)
__CPROVER_requires (bytes > 0 && bytes <= 8 && items >= 0 && items <= LEN_MAX && 0 <= g_io_total && g_io_total <= LEN_MAX)
__CPROVER_requires (items == 0 || __CPROVER_r_ok (ptr, (size_t) (bytes * items)))
__CPROVER_requires (__CPROVER_r_ok (psf, sizeof (SF_PRIVATE)))
__CPROVER_assigns (psf->error, psf->pipeoffset, psf->syserr, g_io_short, g_io_total)
__CPROVER_ensures (0 <= __CPROVER_return_value && __CPROVER_return_value <= items && g_io_total == __CPROVER_old (g_io_total) + __CPROVER_return_value)
__CPROVER_ensures (__CPROVER_return_value == items ? (psf->error == __CPROVER_old (psf->error) && g_io_short == __CPROVER_old (g_io_short)) : g_io_short == 1)
;
/* the peak update as its own unit proves it (C18 units), with the obligations it puts on its callers */
static void %(peakfn)s (SF_PRIVATE *psf, const %(ET)s *buffer, int count, sf_count_t indx)
__CPROVER_requires (__CPROVER_r_ok (psf, sizeof (SF_PRIVATE)) && psf->peak_info != NULL)
__CPROVER_requires (count > 0 && __CPROVER_r_ok (buffer, (size_t) count * %(ESZ)d))
__CPROVER_requires (count %% CH == 0) /*@C18.peak_update_gets_whole_frames*/
__CPROVER_requires (g_io_total %% CH == 0) /*@C18.peak_chunks_start_on_a_frame_boundary*/
__CPROVER_requires (indx * CH == g_io_total) /*@C18.peak_offset_is_the_frame_offset_of_the_chunk*/ /*@C07.peak_offset_is_the_frame_offset_of_the_chunk*/
__CPROVER_requires (0 <= g_peak_items && g_peak_items <= LEN_MAX)
__CPROVER_assigns (__CPROVER_object_whole (psf->peak_info), g_peak_items)
__CPROVER_ensures (g_peak_items == __CPROVER_old (g_peak_items) + count)
;
"""

IMPL = """
static sf_count_t %(fn)s (SF_PRIVATE *psf, %(cq)s%(T)s *ptr, sf_count_t len)
__CPROVER_requires (__CPROVER_is_fresh (psf, sizeof (SF_PRIVATE)) && psf->sf.channels == CH)
__CPROVER_requires (psf->peak_info == NULL || __CPROVER_is_fresh (psf->peak_info, sizeof (PEAK_INFO) + CH * 16))
__CPROVER_requires (len > 0 && len <= LEN_MAX && len %% CH == 0 && len == vin_len && g_io_total == 0 && g_peak_items == 0)
__CPROVER_requires (__CPROVER_is_fresh (ptr, (size_t) len * %(SZ)d))
__CPROVER_assigns (psf->error, psf->pipeoffset, psf->syserr, g_io_short, g_io_total, g_peak_items%(ptr_target)s; psf->peak_info != NULL: __CPROVER_object_whole (psf->peak_info))
__CPROVER_ensures (0 <= __CPROVER_return_value && __CPROVER_return_value <= len) /*@C05.impl_ret_range*/ /*@C15.impl_ret_range*/
__CPROVER_ensures (__CPROVER_return_value < len ==> g_io_short == 1) /*@C05.impl_short_only_when_io_short*/
__CPROVER_ensures (__CPROVER_return_value == g_io_total) /*@C15.impl_reports_exactly_what_the_io_layer_transferred*/ /*@C05.impl_reports_exactly_what_the_io_layer_transferred*/
__CPROVER_ensures (__CPROVER_return_value == len ==> psf->error == __CPROVER_old (psf->error)) /*@C09.impl_full_transfer_sets_no_error*/
%(peak_clause)s;
void h_unit (void)
{	SF_PRIVATE *psf ; %(cq)s%(T)s *ptr ; sf_count_t len ; sf_count_t nd ;
	vin_len = nd ; g_io_short = 0 ; g_io_total = 0 ; g_peak_items = 0 ;
	sf_count_t r = %(fn)s (psf, ptr, len) ;
	REACH (r == vin_len && vin_len > 9000, "full transfer larger than the staging buffer") ;
	REACH (r < vin_len, "short transfer") ;
	CANARY () ;
}
"""

LOOP_INV = ("0 <= total && total <= (1LL << 28) && 0 <= len && len <= (1LL << 28) && total + len == __CPROVER_loop_entry (len) "
            "&& 0 < bufferlen && bufferlen <= %d && g_io_total == total "
            "&& g_io_short == __CPROVER_loop_entry (g_io_short) && psf->error == __CPROVER_loop_entry (psf->error)")
# host_read_d / host_write_d style: one big transfer, then an endswap pass in SENSIBLE_LEN pieces
SENSIBLE_INV = ("0 <= total && total <= (1LL << 28) && 0 <= len && len <= (1LL << 28) && total + len == __CPROVER_loop_entry (len) "
                "&& total + len == g_io_total && 0 < bufferlen && bufferlen <= 0x8000000 "
                "&& g_io_short == __CPROVER_loop_entry (g_io_short) && psf->error == __CPROVER_loop_entry (psf->error) && g_io_total == __CPROVER_loop_entry (g_io_total)")
# writers that run the peak update per staging chunk: chunks are whole frames and everything written so far was covered
ALIGN_INV = " && total % CH == 0 && len % CH == 0 && bufferlen % CH == 0 && g_peak_items == (psf->peak_info != (void *) 0 ? total : 0)"
TYPES = {"short": 2, "int": 4, "float": 4, "double": 8}


def units():
    U = []
    for fname, ET, ESZ, peakfn, buflen in (("float32.c", "float", 4, "float32_peak_update", 2048), ("double64.c", "double", 8, "double64_peak_update", 1024)):
        path = os.path.join(REPO, "src", fname)
        try:
            txt = open(path, errors="replace").read()
        except OSError:
            continue
        sigs = kernel_sigs(path)
        sigs.update(kernel_sigs(os.path.join(REPO, "src", "sfendian.h")))
        for m in re.finditer(r"^((?:host|replace)_(read|write)_\w+)\s*\(SF_PRIVATE \*psf, (const )?(\w+) \*ptr, sf_count_t len\)\n\{(.*?)^\}", txt, re.S | re.M):
            fn, kind, cq, T, body = m.group(1), m.group(2), m.group(3) or "", m.group(4), m.group(5)
            if T not in TYPES:
                continue
            called = sorted(set(k for k in sigs if re.search(r"\b%s\b" % re.escape(k), body)))
            decls, repl = [], ["psf_fread", "psf_fwrite"]
            for k in called:
                c = kernel_frame_contract(k, sigs[k])
                if c is None:
                    continue
                decls.append(c)
                repl.append(k)
            for k in ("d2bd_read", "bd2d_write"):
                if re.search(r"\b%s\b" % k, body):
                    decls.append("static void %s (double *buffer, int count)\n__CPROVER_requires (0 <= count && count <= 65536 && (count == 0 || __CPROVER_w_ok (buffer, (size_t) count * 8)))\n"
                                 "__CPROVER_assigns (count > 0: __CPROVER_object_from (buffer))\n;\n" % k)
                    repl.append(k)
            if peakfn in body:
                repl.append(peakfn)
            for ch in (2, 3, 5, 1024):
                h = HEAD % dict(file=fname, ch=ch, peakfn=peakfn, ET=ET, ESZ=ESZ) + "\n".join(decls) + IMPL % dict(
                    fn=fn, cq=cq, T=T, SZ=TYPES[T], ptr_target=(", __CPROVER_object_whole (ptr)" if kind == "read" else ""),
                    peak_clause=("__CPROVER_ensures (psf->peak_info != NULL ==> g_peak_items >= __CPROVER_return_value) /*@C18.every_item_written_went_through_the_peak_update*/\n" if kind == "write" else ""))
                in_loop = bool(re.search(r"_peak_update \(psf, ubuf", body))
                u = {"name": "%s.%s.ch%d" % (fname[:-2], fn, ch), "props": ["C05", "C15"] + (["C18", "C07"] if kind == "write" else ["C06"]),
                     "harness_text": h, "template": "units/gen_float.py", "entry": "h_unit", "enforce": fn, "function": "%s:%s" % (fname, fn),
                     "replace": repl, "timeout": 600, "tier": "quick" if ch in (2, 3) else "thorough", "kind": "enumerated(channels=%d)" % ch,
                     "trusted": ["psf_fread/psf_fwrite contracts (enforced in the file_io units)", "E1 memcpy model"]}
                if "while (len > 0)" in body:
                    u["loops"] = {fn: [{"loop_id": 0, "assigns_locals": True, "optional": True,
                                        "assigns": "psf->error, psf->pipeoffset, psf->syserr, g_io_short, g_io_total" + (", g_peak_items" if in_loop else "") +
                                                   (", __CPROVER_object_whole (ptr)" if kind == "read" else "") +
                                                   ("; psf->peak_info != (void *) 0: __CPROVER_object_whole (psf->peak_info)" if peakfn in body else ""),
                                        "invariants": ((LOOP_INV % buflen) if "SENSIBLE_LEN" not in body else SENSIBLE_INV) + (ALIGN_INV.replace("CH", str(ch)) if in_loop else ""), "decreases": "len"}]}
                if "convert = " in body:
                    cands = [k for k in called if k.endswith("_array") and not k.startswith("endswap")]
                    u["restrict_fp"] = ["%s.function_pointer_call.1/%s" % (fn, ",".join(cands))]
                U.append(u)
    return U


# ---- conversion kernels of float32.c / double64.c: element rules (C02) ----------------------------------------
def _kernel_units():
    U = []
    RTI = {"float": "__CPROVER_round_to_integralf", "double": "__CPROVER_round_to_integrald"}
    K = []
    for fname, F, pfx in (("float32.c", "float", "f"), ("double64.c", "double", "d")):
        sc = "(scale * src [0])"
        rnd = "%s (%s, __CPROVER_rounding_mode)" % (RTI[F], sc)
        K += [
            (fname, "%s2s_array" % pfx, "scd", F, "short", F + " scale", "scale == scale && src [0] == src [0]",
             "(%s >= -32768.0 && %s <= 32767.0) ==> dest [0] == (short) (long) %s" % (sc, sc, rnd), "int read of a %s file: nearest integer to scale * x" % F),
            (fname, "%s2s_clip_array" % pfx, "scd", F, "short", F + " scale", "scale == scale && src [0] == src [0]",
             "dest [0] == (%s > 32767.0 ? 32767 : (%s < -32768.0 ? -32768 : (short) (long) %s))" % (sc, sc, rnd), "clipping read saturates at the short range"),
            (fname, "%s2i_array" % pfx, "scd", F, "int", F + " scale", "scale == scale && src [0] == src [0]",
             "(%s >= -2147483648.0 && %s <= 2147483520.0) ==> dest [0] == (int) (long) %s" % (sc, sc, rnd), "int read of a %s file: nearest integer to scale * x" % F),
            (fname, "%s2i_clip_array" % pfx, "scd", F, "int", F + " scale", "scale == scale && src [0] == src [0]",
             "dest [0] == ((double) %s > 2147483647.0 ? 2147483647 : ((double) %s < -2147483647.0 ? (-2147483647 - 1) : (int) (long) %s))" % (sc, sc, rnd),
             "clipping read saturates at the int range and otherwise rounds the %s product itself" % F),
        ]
        K += [(fname, "s2%s_array" % pfx, "sdc", "short", F, F + " scale", "scale > -1e30 && scale < 1e30", "dest [0] == scale * src [0]", "short written to a %s file: scale * x" % F),
              (fname, "i2%s_array" % pfx, "sdc", "int", F, F + " scale", "scale > -1e30 && scale < 1e30", "dest [0] == scale * src [0]", "int written to a %s file: scale * x" % F)]
    K += [("float32.c", "f2d_array", "scd", "float", "double", "", "src [0] == src [0]", "dest [0] == (double) src [0]", "float to double is exact"),
          ("float32.c", "d2f_array", "sdc", "double", "float", "", "src [0] == src [0]", "dest [0] == (float) src [0]", "double to float rounds once"),
          ("double64.c", "d2f_array", "scd", "double", "float", "", "src [0] == src [0]", "dest [0] == (float) src [0]", "double to float rounds once"),
          ("double64.c", "f2d_array", "sdc", "float", "double", "", "src [0] == src [0]", "dest [0] == (double) src [0]", "float to double is exact")]
    for fname, fn, order, st, dt, ep, assume, rule, text in K:
        argn = ep.split()[-1] if ep else ""
        call = ("%s (src, 1, dest%s)" if order == "scd" else "%s (src, dest, 1%s)") % (fn, (", " + argn) if argn else "")
        h = """#include "env_pre.h"
#include "%(fname)s"
#include "ghost.h"

void h_unit (void)
{	%(st)s src [1] ; %(dt)s dest [1] ; INPUT (%(st)s, nd) ;
%(decl)s
	src [0] = nd ;
	__CPROVER_assume (%(assume)s) ;
	%(call)s ;
	__CPROVER_assert (%(rule)s, "%(text)s") ; /*@C02.element_rule_single*/
	CANARY () ;
}
""" % dict(fname=fname, st=st, dt=dt, decl=("\tINPUT (%s, %s) ;" % (" ".join(ep.split()[:-1]), argn)) if ep else "", assume=assume, call=call, rule=rule, text=text)
        U.append({"name": "%s.%s.elem" % (fname[:-2], fn), "props": ["C02"], "harness_text": h, "template": "units/gen_float.py", "entry": "h_unit", "dfcc": False,
                  "function": "%s:%s" % (fname, fn), "backend": "cvc5", "cbmc_flags": ["--unwind", "2"], "drop_flags": ["--signed-overflow-check", "--slice-formula"],
                  "self_replay": True, "inputs": ["nd"] + ([argn] if argn else []), "replay_link": "all", "replay_exclude": [fname],
                  "timeout": 300, "kind": "proof(single element, every value of element and scale; structural FP)",
                  "note": "that every iteration applies this element function: the loop body is the element statement (frame contracts of these kernels are assumed in the implementation units)"})
        # frame unit: index range, termination, only dest [0..count) written (the frame contract the implementation units assume)
        SZ = {"short": 2, "int": 4, "float": 4, "double": 8}
        sig = ("(const %s *src, int count, %s *dest%s)" if order == "scd" else "(const %s *src, %s *dest, int count%s)") % (st, dt, (", " + ep) if ep else "")
        fh = """#include "env_pre.h"
#include "%(fname)s"
#include "ghost.h"
static void %(fn)s %(sig)s
__CPROVER_requires (0 <= count && count <= 65536)
__CPROVER_requires (__CPROVER_is_fresh (src, (size_t) (count > 0 ? count : 1) * %(ssz)d) && __CPROVER_is_fresh (dest, (size_t) (count > 0 ? count : 1) * %(dsz)d))
__CPROVER_assigns (__CPROVER_object_whole (dest))
__CPROVER_ensures (1)
;
void h_unit (void)
{	const %(st)s *src ; %(dt)s *dest ; int count ;
%(decl)s
	%(callf)s ;
	CANARY () ;
}
""" % dict(fname=fname, fn=fn, sig=sig, st=st, dt=dt, ssz=SZ[st], dsz=SZ[dt], decl=("\t" + ep + " ;") if ep else "",
           callf=("%s (src, count, dest%s)" if order == "scd" else "%s (src, dest, count%s)") % (fn, (", " + argn) if argn else ""))
        U.append({"name": "%s.%s.frame" % (fname[:-2], fn), "props": ["C02", "C05"], "harness_text": fh, "template": "units/gen_float.py", "entry": "h_unit", "enforce": fn,
                  "function": "%s:%s" % (fname, fn), "timeout": 300, "drop_flags": ["--signed-overflow-check"], "backend": "kissat",
                  "loops": {fn: [{"loop_id": 0, "assigns_locals": True, "assigns": "__CPROVER_object_whole (dest)", "invariants": "0 <= i && i <= count", "decreases": "count - i"}]},
                  "note": "index range, termination, frame; element value in the .elem unit (float -> int cast overflow of out-of-domain elements not checked)"})
    return U


_units_impl = units


def units():
    return _units_impl() + _kernel_units()
