"""C02 (and C01, C19): the sample conversion kernels of src/pcm.c, each against
the documented conversion rule, element-wise, for every value and every count.

Each unit: real kernel enforced against a contract whose postcondition is the
rule for the arbitrary element g_idx; the loop is closed by an inductive loop
contract "0 <= i <= count  &&  (g_idx < i  ==>  RULE (g_idx))" (loop assigns
inferred by DFCC).  Frame: only the destination array (exactly `count`
elements, so any write past the end is a pointer-check failure); the source
is not assignable, hence unchanged.
"""

ENC = ["sc", "uc", "bes", "les", "bet", "let", "bei", "lei"]
W = {"sc": 8, "uc": 8, "bes": 16, "les": 16, "bet": 24, "let": 24, "bei": 32, "lei": 32}
CT = {"sc": "signed char", "uc": "unsigned char", "bes": "short", "les": "short",
      "bet": "tribyte", "let": "tribyte", "bei": "int", "lei": "int",
      "s": "short", "i": "int", "f": "float", "d": "double"}
HOSTW = {"s": 16, "i": 32}

KMAX = 65536

HEAD = """#include "pcm.c"
#include "ghost.h"
#include "pcm_spec.h"
"""


def conv_int(v, w, W_):
    if w == W_:
        return v
    if w < W_:
        return "WIDEN (%s, %d, %d)" % (v, w, W_)
    return "NARROW (%s, %d, %d)" % (v, w, W_)


def reader_rule(enc, host):
    """stored enc -> host type (s or i)"""
    return "dest [K] == (%s) %s" % (CT[host], conv_int("ST_%s (src, K)" % enc, W[enc], HOSTW[host]))


def writer_rule(host, enc):
    return "PUT_%s (dest, K, %s)" % (enc, conv_int("((int) src [K])", HOSTW[host], W[enc]))


def fread_rule(enc, host):
    # value aligned as the library's documented normalisation expects:
    # 24 bit data is delivered left aligned in 32 bits, everything else as is
    al = "ST_%s (src, K)" % enc
    if W[enc] == 24:
        al = "WIDEN (%s, 24, 32)" % al
    # the stored value in its own width (same number; keeps the int->FP conversion term narrow, which the
    # FP back ends need in order to finish)
    if enc == "sc":
        al = "(signed char) (%s)" % al
    if W[enc] == 16:
        al = "(short) (%s)" % al
    return "dest [K] == ((%s) (%s)) * normfact" % (CT[host], al)


def fwrite_terms(host, enc, clip):
    w = W[enc]
    fl = "f" if host == "f" else ""
    T = CT[host]
    lr = "lrintf" if host == "f" else "lrint"
    rti = "__CPROVER_round_to_integralf" if host == "f" else "__CPROVER_round_to_integrald"
    # documented input domain: [-1, 1) when normalising, the w-bit integer range otherwise; with clipping
    # everything except NaN (out-of-range input saturates)
    if clip:
        dom = "(src [K] == src [K])"
    else:
        dom = ("(normalize ? (src [K] >= -1.0 && src [K] < 1.0) : ((double) src [K] >= %d.0 && (double) src [K] <= %d.0))"
               % (-(1 << (w - 1)), (1 << (w - 1)) - 1))
    if not clip:
        # documented: nearest integer to x * (2^(w-1) - 1) when normalising, x otherwise
        nf = "(normalize ? (%s) (1.0 * 0x%X) : (%s) 1.0)" % (T, (1 << (w - 1)) - 1, T)
        val = "((int) %s (src [K] * %s))" % (lr, nf)
        val_inv = "((int) (long) %s (src [K] * %s, __CPROVER_rounding_mode))" % (rti, nf)
        return "%s ==> PUT_%s (dest, K, %s)" % (dom, enc, val), "%s ==> PUT_%s (dest, K, %s)" % (dom, enc, val_inv)
    # clipping: scale by 2^(w-1); saturate at the integer extremes
    nf = "(normalize ? (%s) (8.0 * 0x%X) : (%s) 1.0)" % (T, (1 << (w - 1)) // 8, T)
    sc = "(src [K] * %s)" % nf
    hi = "(%s) (1.0 * 0x%X)" % ("double", (1 << (w - 1)) - 1)
    lo = "(%s) (-8.0 * 0x%X)" % ("double", (1 << (w - 1)) // 8)
    mk = lambda r: (dom + " ==> (%s >= %s ? PUT_%s (dest, K, INTMAX_W (%d)) : (%s <= %s ? PUT_%s (dest, K, INTMIN_W (%d)) : PUT_%s (dest, K, %s)))"
                    % (sc, hi, enc, w, sc, lo, enc, w, enc, r))
    return mk("((int) %s (%s))" % (lr, sc)), mk("((int) (long) %s (%s, __CPROVER_rounding_mode))" % (rti, sc))


def kernel_unit(name, src_t, dest_t, order, rule, props, extra_params="", extra_req="", rule_inv=None,
                tier="quick", timeout=120, kind="proof", note="", backend="minisat", drop_flags=()):
    if order == "scd":      # (src, count, dest[, normfact])
        sig = "(const %s *src, int count, %s *dest%s)" % (src_t, dest_t, extra_params)
    else:                   # (src, dest, count[, normalize])
        sig = "(const %s *src, %s *dest, int count%s)" % (src_t, dest_t, extra_params)
    post = rule.replace("K", "g_idx")
    inv = (rule_inv or rule).replace("K", "g_idx")
    tagp = props[0]
    h = HEAD + """
static void %(name)s %(sig)s
__CPROVER_requires (0 <= count && count <= %(kmax)d)
__CPROVER_requires (__CPROVER_is_fresh (src, (count > 0 ? count : 1) * sizeof (%(src_t)s)))
__CPROVER_requires (__CPROVER_is_fresh (dest, (count > 0 ? count : 1) * sizeof (%(dest_t)s)))
%(extra_req)s
__CPROVER_assigns (__CPROVER_object_whole (dest))
__CPROVER_ensures ((0 <= g_idx && g_idx < count) ==> (%(post)s)) /*@%(tagp)s.element_rule*/
;

void h_unit (void)
{	const %(src_t)s *src ; %(dest_t)s *dest ; int count ;
%(decl)s
	GHOST_HAVOC () ;
	%(call)s ;
	CANARY () ;
}
"""
    ep = extra_params.strip().lstrip(",").strip()
    decl = ("\t" + ep + " ;") if ep else ""
    argname = ep.split()[-1] if ep else ""
    if order == "scd":
        call = "%s (src, count, dest%s)" % (name, (", " + argname) if argname else "")
    else:
        call = "%s (src, dest, count%s)" % (name, (", " + argname) if argname else "")
    h = h % dict(name=name, sig=sig, kmax=KMAX, src_t=src_t, dest_t=dest_t, extra_req=extra_req, post=post,
                 tagp=tagp, decl=decl, call=call)
    loops = {name: [{"loop_id": 0, "assigns_locals": True, "assigns": "__CPROVER_object_whole (dest)",
                     "invariants": "0 <= i && i <= count && ((0 <= g_idx && g_idx < i) ==> (%s))" % inv,
                     "decreases": "count - i"}]}
    return {"name": "pcm." + name, "props": props, "harness_text": h, "template": "units/gen_pcm_kernels.py",
            "entry": "h_unit", "enforce": name, "loop_headers": ["pcm_spec.h"], "function": "pcm.c:" + name, "loops": loops,
            "timeout": timeout, "tier": tier, "kind": kind, "note": note, "backend": backend, "drop_flags": list(drop_flags)}


def elem_unit(name, src_t, dest_t, order, rule, props, extra_params="", extra_assume="", drop_flags=(), backend="cvc5"):
    """One element, plain (non-DFCC) harness, cvc5: the real kernel is called with count == 1 and the
    documented rule is asserted for that element (all values of the element and of the parameters)."""
    ep = extra_params.strip().lstrip(",").strip()
    argname = ep.split()[-1] if ep else ""
    if order == "scd":
        call = "%s (src, 1, dest%s)" % (name, (", " + argname) if argname else "")
    else:
        call = "%s (src, dest, 1%s)" % (name, (", " + argname) if argname else "")
    post = rule.replace("K", "0")
    h = HEAD + """
void h_unit (void)
{	%(src_t)s src [1] ; %(dest_t)s dest [1] ; INPUT (%(src_t)s, nd) ;
%(decl)s
	src [0] = nd ;
%(assume)s
	%(call)s ;
	__CPROVER_assert (%(post)s, "element rule") ; /*@C02.element_rule_single*/
	CANARY () ;
}
""" % dict(src_t=src_t, dest_t=dest_t, decl=("\tINPUT (%s, %s) ;" % (" ".join(ep.split()[:-1]), argname)) if ep else "", call=call, post=post,
           assume=("\t__CPROVER_assume (%s) ;" % extra_assume) if extra_assume else "")
    return {"name": "pcm." + name + ".elem", "props": props, "harness_text": h, "template": "units/gen_pcm_kernels.py",
            "entry": "h_unit", "dfcc": False, "function": "pcm.c:" + name, "backend": backend,
            "self_replay": True, "inputs": ["nd"] + ([argname] if ep else []), "replay_link": "all", "replay_exclude": ["pcm.c"],
            "cbmc_flags": ["--unwind", "2"], "timeout": 300, "tier": "quick", "kind": "proof",
            "drop_flags": list(drop_flags) + (["--slice-formula"] if backend == "cvc5" else []),
            "note": "single element, structural FP (cvc5); that every iteration applies this element function is "
                    "closed by the thorough-tier DFCC loop unit of the same kernel"}


def frame_unit(name, src_t, dest_t, order, props, extra_params="", extra_req="", drop_flags=()):
    u = kernel_unit(name, src_t, dest_t, order, "1", props, extra_params=extra_params, extra_req=extra_req,
                    drop_flags=drop_flags)
    u["name"] = "pcm." + name + ".frame"
    u["note"] = "index range, termination, frame (only dest [0..count) written, src untouched); element value in the .elem unit"
    return u


# kernels whose full DFCC loop unit with the IEEE term needs minutes: quick tier = .elem + .frame, thorough = full
SLOW = set(["%s2d_array" % e for e in ENC] + ["%s2f_array" % e for e in ENC] +
           ["d2%s_array" % e for e in ("bes", "les", "bet", "let", "bei", "lei")])


# full inductive loop units that do not finish within an hour on this machine (measured in a thorough-tier pass:
# lei2d_array 2440+ s, bei2d_array > 3600 s): for these the element rule (.elem) and the frame unit (.frame) stand alone
NO_FULL = set(["bei2d_array", "lei2d_array"])


def units():
    U = []
    # integer readers
    for enc, host in [("sc", "s"), ("uc", "s"), ("let", "s"), ("bet", "s"), ("lei", "s"), ("bei", "s"),
                      ("sc", "i"), ("uc", "i"), ("bes", "i"), ("les", "i"), ("bet", "i"), ("let", "i")]:
        U.append(kernel_unit("%s2%s_array" % (enc, host), CT[enc], CT[host], "scd",
                             reader_rule(enc, host), ["C02", "C01"]))
    # integer writers
    for host, enc in [("s", "sc"), ("s", "uc"), ("s", "let"), ("s", "bet"), ("s", "lei"), ("s", "bei"),
                      ("i", "sc"), ("i", "uc"), ("i", "bes"), ("i", "les"), ("i", "let"), ("i", "bet")]:
        U.append(kernel_unit("%s2%s_array" % (host, enc), CT[host], CT[enc], "sdc",
                             writer_rule(host, enc), ["C02", "C01"]))
    # integer -> float/double readers: value * normfact (normfact chosen by the caller, see pcm_read_* units)
    for host in ("f", "d"):
        for enc in ENC:
            nm = "%s2%s_array" % (enc, host)
            slow = nm in SLOW
            if nm not in NO_FULL:
              U.append(kernel_unit(nm, CT[enc], CT[host], "scd",
                                 fread_rule(enc, host), ["C02"],
                                 extra_params=", %s normfact" % CT[host],
                                 extra_req="__CPROVER_requires (normfact > 0 && normfact <= 1)", backend="kissat",
                                 timeout=3600 if slow else 600, tier="thorough" if slow else "quick", note="structural FP"))
            if slow:
                U.append(elem_unit(nm, CT[enc], CT[host], "scd", fread_rule(enc, host), ["C02"],
                                   extra_params=", %s normfact" % CT[host], extra_assume="normfact > 0 && normfact <= 1",
                                   backend="cvc5"))
                U.append(frame_unit(nm, CT[enc], CT[host], "scd", ["C02"], extra_params=", %s normfact" % CT[host]))
    # float/double -> integer writers
    for host in ("f", "d"):
        for enc in ENC:
            for clip in (False, True):
                nm = "%s2%s_%sarray" % (host, enc, "clip_" if clip else "")
                post, inv = fwrite_terms(host, enc, clip)
                # the libm call is written as CBMC's own primitive for it (lrint == round_to_integral in the current
                # rounding mode, then conversion; E2) in postcondition and invariant alike
                post = inv
                slow = nm in SLOW
                if slow:
                    U.append(elem_unit(nm, CT[host], CT[enc], "sdc", post, ["C02"], extra_params=", int normalize",
                                       drop_flags=["--signed-overflow-check"]))
                    U.append(frame_unit(nm, CT[host], CT[enc], "sdc", ["C02"], extra_params=", int normalize",
                                        drop_flags=["--signed-overflow-check"]))
                U.append(kernel_unit(nm, CT[host], CT[enc], "sdc", post, ["C02"],
                                     extra_params=", int normalize", rule_inv=inv,
                                     timeout=3600 if slow else 900, tier="thorough" if slow else "quick",
                                     backend="kissat", drop_flags=["--signed-overflow-check"],
                                     note="structural FP; float->int cast overflow for NaN / out-of-domain elements not checked"))
    return U


NOT_DECIDED = {
    "C02": ["bei2d_array / lei2d_array: the inductive loop unit with the IEEE term does not finish within an hour; decided by the single-element "
            "rule (.elem) plus the frame unit (.frame) only",
            "SSE2 build variant of psf_lrint/psf_lrintf (verified with -U__SSE2__; _mm_cvtss_si32 trusted to equal lrintf)",
            "independent numeric error bound of float scaling: the float/double kernel obligations establish which IEEE "
            "operations, constants, rounding primitive, clip order and byte packing are applied (structural identity), "
            "not a separately derived arithmetic bound"],
}
ASSUMPTIONS = {
    "C02": ["kernel count bounded by 65536 elements per call (callers pass at most the 8192-element staging buffer)",
            "libm lrint/lrintf = IEEE roundToIntegral in the current rounding mode, then conversion (CBMC math model, E2)"],
}
