/* C10 (C04): "sf_format_check agrees with what can really be opened for writing", per container.
** Plain harness through the REAL code: for every (encoding, byte order) the real sf_format_check admits
** for this container, the real X_open in SFM_WRITE mode -- including its real X_write_header on the real
** psf_binheader_writef and file_io.c over a memory-backed virtual file -- succeeds and runs a codec
** initialiser.  The codec initialisers themselves are stand-ins that only count their calls (their own
** behaviour is the subject of the codec units); channel count enumerated, sample rate symbolic.
*/
#include "env_pre.h"
#define psf_log_printf(...)		verif_nolog ()
#include CONTAINER_FILE
void verif_nolog (void) { }
#include "ghost.h"
#include "env_stubs.h"

#ifndef CH
#define CH 2
#endif
#define STORE 1024
#define HDRBUF 4096

int g_init_calls ;
#define STUB1(name)			int name (SF_PRIVATE *psf) { g_init_calls ++ ; return 0 ; }
#define STUB2(name, T2)		int name (SF_PRIVATE *psf, T2 a) { g_init_calls ++ ; return 0 ; }
#define STUB3(name)			int name (SF_PRIVATE *psf, int a, int b) { g_init_calls ++ ; return 0 ; }
CODEC_STUBS

/* writes the MS ADPCM coefficient table into the header cache (ms_adpcm.c, not linked): affects the header size only */
void wavlike_msadpcm_write_adapt_coeffs (SF_PRIVATE *psf) { }

/* portable IEEE serialisers (float32.c / double64.c, not linked here because their *_init are stand-ins above):
** write 4 resp. 8 unconstrained bytes */
void float32_be_write (float in, unsigned char *out) { unsigned char nd [4] ; out [0] = nd [0] ; out [1] = nd [1] ; out [2] = nd [2] ; out [3] = nd [3] ; }
void float32_le_write (float in, unsigned char *out) { unsigned char nd [4] ; out [0] = nd [0] ; out [1] = nd [1] ; out [2] = nd [2] ; out [3] = nd [3] ; }
void double64_be_write (double in, unsigned char *out) { unsigned char nd [8] ; for (int k = 0 ; k < 8 ; k++) out [k] = nd [k] ; }
void double64_le_write (double in, unsigned char *out) { unsigned char nd [8] ; for (int k = 0 ; k < 8 ; k++) out [k] = nd [k] ; }

static unsigned char store [STORE] ;
static sf_count_t vpos, vlen ;
static sf_count_t v_get_filelen (void *u) { return vlen ; }
static sf_count_t v_seek (sf_count_t off, int whence, void *u)
{	if (whence == SEEK_SET) vpos = off ; else if (whence == SEEK_CUR) vpos += off ; else vpos = vlen + off ;
	return vpos ;
}
static sf_count_t v_read (void *p, sf_count_t n, void *u) { return 0 ; }
static sf_count_t v_write (const void *p, sf_count_t n, void *u)
{	if (n <= 0) return 0 ;
	__CPROVER_assert (vpos >= 0 && vpos + n <= STORE, "harness store: the first header fits the stored region") ;
	for (sf_count_t k = 0 ; k < n ; k++) store [vpos + k] = ((const unsigned char *) p) [k] ;
	vpos += n ; if (vpos > vlen) vlen = vpos ; return n ;
}
static sf_count_t v_tell (void *u) { return vpos ; }

static unsigned char hbuf [HDRBUF] ;
static SF_PRIVATE W ;

void h_open_write (void)
{	int subformat, endian_bits, rate ;
	__CPROVER_assume ((subformat & ~SF_FORMAT_SUBMASK) == 0 && (endian_bits & ~SF_FORMAT_ENDMASK) == 0) ;
#ifdef SUBFORMAT_FIXED
	subformat = SUBFORMAT_FIXED ; endian_bits = 0 ;
#endif
	__CPROVER_assume (rate >= 1 && rate <= (1 << 19)) ;	/* larger rates overflow the informational bytes-per-second product in some writers: outside this lemma */
	W.virtual_io = SF_TRUE ; W.file.mode = SFM_WRITE ;
	W.vio.get_filelen = v_get_filelen ; W.vio.seek = v_seek ; W.vio.read = v_read ; W.vio.write = v_write ; W.vio.tell = v_tell ;
	W.header.ptr = hbuf ; W.header.len = HDRBUF ; W.sf.seekable = SF_TRUE ;
	W.sf.channels = CH ; W.sf.samplerate = rate ; W.sf.format = CONTAINER_FMT | subformat | endian_bits ; W.sf.sections = 1 ;
	__CPROVER_assume (sf_format_check (&W.sf) == 1) ;		/* the REAL validity table */
	int err = OPEN_FN (&W) ;
	__CPROVER_assert (err != SFE_BAD_OPEN_FORMAT && err != SFE_UNIMPLEMENTED, "every combination sf_format_check admits is accepted by the container's open/header writer") ; /*@C10.accepted_format_is_writable*/
	__CPROVER_assert (err != 0 || g_init_calls == 1, "a successful open for write has run exactly one codec initialiser") ; /*@C10.accepted_format_gets_a_codec*/
#ifndef NO_HEADER
	__CPROVER_assert (err != 0 || (W.write_header != NULL), "write_header installed") ; /*@C10.open_installs_write_header*/
#endif
#ifdef WAV_UPDATE_CHECK
	/* C11: a header update after L bytes of audio were stored (SFC_UPDATE_HEADER_NOW, auto update, close).  For the
	** block encodings (bytewidth == 0: IMA/MS ADPCM, GSM, G721, NMS...) the length of the data chunk must come from the
	** bytes in the file; the RIFF length covers the file for every encoding. */
	if (err == 0 && W.write_header != NULL)
	{	sf_count_t L, F ;
		__CPROVER_assume (0 <= L && L <= (1LL << 30) && 0 <= F && F <= (1LL << 30)) ;
		sf_count_t D = W.dataoffset ;
		__CPROVER_assume (D >= 12 && D == vlen) ;	/* reachability of this is witnessed below */
		vlen = D + L ; vpos = vlen ; W.sf.frames = F ; W.have_written = SF_TRUE ;
		int uerr = W.write_header (&W, SF_TRUE) ;
		if (uerr == 0 && W.dataoffset == D && W.bytewidth == 0)
		{	unsigned dsz = (unsigned) store [D - 4] | ((unsigned) store [D - 3] << 8) | ((unsigned) store [D - 2] << 16) | ((unsigned) store [D - 1] << 24) ;
			__CPROVER_assert (dsz == (unsigned) L, "block encodings: the data chunk length written by a header update covers the audio bytes stored so far") ; /*@C11.data_length_covers_audio_stored_so_far*/
			} ;
		if (uerr == 0)
		{	unsigned rsz = (unsigned) store [4] | ((unsigned) store [5] << 8) | ((unsigned) store [6] << 16) | ((unsigned) store [7] << 24) ;
			__CPROVER_assert (rsz == (unsigned) (vlen - 8), "the RIFF length written by a header update covers the file") ; /*@C11.riff_length_covers_the_file*/
			__CPROVER_assert (vlen == D + L && vpos == D + L, "a header update neither grows the file nor moves the write position") ; /*@C11.header_update_restores_position*/
			} ;
		REACH (uerr == 0 && W.bytewidth == 0 && W.dataoffset == D, "header update with a block encoding") ;
		} ;
#endif
	REACH (err == 0, "some admitted format opens") ;
	CANARY () ;
}
