/* C04 / C10 / C11: MAT5 header write/read pair lemma through the REAL code:
** mat5_write_header (SF_FALSE) at open, N frames of audio accounted, mat5_write_header (SF_TRUE) as at close
**   ->  bytes in a memory-backed virtual file  ->  mat5_read_header on a fresh handle.
** Plain (non-DFCC) harness as for AU (hdr_au.harness.c): real psf_binheader_writef / readf and file_io.c on the
** virtual-I/O route; stand-ins: the caller's callbacks, psf_log_printf (compiled out), the date string of the
** text header (wall clock: fixed text).  Symbolic: frames N, sample rate (full range incl. > 65535);
** enumerated: channel count, encoding, byte order.
*/
#include "env_pre.h"
#define psf_log_printf(...)		verif_nolog ()
#define psf_get_date_str		verif_date_str
#include "mat5.c"
void verif_nolog (void) { }
void verif_date_str (char *str, int maxlen) { str [0] = 'T' ; str [1] = 0 ; }
#include "ghost.h"

#ifndef CH
#define CH 2
#endif
#ifndef SUBFORMAT
#define SUBFORMAT SF_FORMAT_PCM_16
#endif
#ifndef BYTEW
#define BYTEW 2
#endif
#define BLOCKW (CH * BYTEW)
#define STORE 512
#define HDRBUF 1024		/* a header cache that has already grown (growth itself: unit common.psf_bump_header_allocation) */

static unsigned char store [STORE] ;
static sf_count_t vpos, vlen ;
static sf_count_t v_get_filelen (void *u) { return vlen ; }
static sf_count_t v_seek (sf_count_t off, int whence, void *u)
{	if (whence == SEEK_SET) vpos = off ; else if (whence == SEEK_CUR) vpos += off ; else vpos = vlen + off ;
	return vpos ;
}
static sf_count_t g_hdr_len ;	/* length of the header the writer produced: the file is at least this long */
static sf_count_t v_read (void *p, sf_count_t n, void *u)
{	if (n <= 0) return 0 ;
	/* the parser asks for exactly the bytes of the header it is parsing: inside the file for every N >= 0, so the
	** request is served in full (no clamp against the symbolic file length needed) */
	__CPROVER_assert (vpos >= 0 && vpos + n <= g_hdr_len && g_hdr_len <= vlen && g_hdr_len <= STORE, "harness store: reads stay inside the header region") ;
	for (sf_count_t k = 0 ; k < n ; k++) ((unsigned char *) p) [k] = store [vpos + k] ;
	vpos += n ; return n ;
}
static sf_count_t v_write (const void *p, sf_count_t n, void *u)
{	if (n <= 0) return 0 ;
	__CPROVER_assert (vpos >= 0 && vpos + n <= STORE, "C11.header_update_stays_below_the_audio_data: header writes stay in the header region") ;
	for (sf_count_t k = 0 ; k < n ; k++) store [vpos + k] = ((const unsigned char *) p) [k] ;
	vpos += n ; if (vpos > vlen) vlen = vpos ; return n ;
}
static sf_count_t v_tell (void *u) { return vpos ; }

static unsigned char hbuf_w [HDRBUF], hbuf_r [HDRBUF] ;
static SF_PRIVATE W, R ;

static void init_handle (SF_PRIVATE *psf, unsigned char *hbuf, int mode)
{	psf->virtual_io = SF_TRUE ; psf->file.mode = mode ;
	psf->vio.get_filelen = v_get_filelen ; psf->vio.seek = v_seek ; psf->vio.read = v_read ; psf->vio.write = v_write ; psf->vio.tell = v_tell ;
	psf->header.ptr = hbuf ; psf->header.len = HDRBUF ; psf->header.indx = 0 ; psf->header.end = 0 ;
	psf->sf.seekable = SF_TRUE ;
}

void h_mat5_pair (void)
{	sf_count_t N ; int rate, endian_nd ;
	__CPROVER_assume (0 <= N && N <= N_MAX) ;
	__CPROVER_assume (1 <= rate) ;
	/* byte order enumerated: with a symbolic order the length fields the reader parses stop being constants */
	endian_nd = ENDIAN ;

	init_handle (&W, hbuf_w, SFM_WRITE) ;
	W.sf.channels = CH ; W.sf.samplerate = rate ; W.sf.format = SF_FORMAT_MAT5 | SUBFORMAT ; W.endian = endian_nd ;
	W.bytewidth = BYTEW ; W.blockwidth = BLOCKW ; W.sf.frames = 0 ;
	vlen = 0 ; vpos = 0 ;
	int werr0 = mat5_write_header (&W, SF_FALSE) ;			/* as mat5_open does */
	__CPROVER_assert (werr0 == 0, "first header accepted") ; /*@C10.accepted_format_is_writable*/
	sf_count_t D = W.dataoffset ;
	__CPROVER_assert (D == vlen && D > 0 && D <= STORE, "the audio starts right behind the first header") ; /*@C04.dataoffset_is_header_length*/
#if defined (STAGE) && STAGE == 1
	return ;
#endif
	vlen = D + N * BLOCKW ; vpos = vlen ; W.have_written = SF_TRUE ;	/* N frames accepted by the write calls */
	int werr = mat5_write_header (&W, SF_TRUE) ;			/* as mat5_close does */
	__CPROVER_assert (werr == 0, "final header accepted") ; /*@C10.accepted_format_is_writable*/
	__CPROVER_assert (W.dataoffset == D, "the rewritten header has the length of the first one") ; /*@C11.header_does_not_move_the_audio*/
	__CPROVER_assert (vlen == D + N * BLOCKW, "file length unchanged by the header rewrite") ; /*@C11.header_update_does_not_grow_the_file*/

#if defined (STAGE) && STAGE == 2
	return ;
#endif
	init_handle (&R, hbuf_r, SFM_READ) ;
	vpos = 0 ; g_hdr_len = D ;
	R.filelength = vlen ;
	int rerr = mat5_read_header (&R) ;
	__CPROVER_assert (rerr == 0, "reader accepts what the writer produced") ; /*@C04.reopen_succeeds*/ /*@C10.written_file_reopens*/
	__CPROVER_assert (R.sf.channels == CH, "channels") ; /*@C04.channels_round_trip*/
	__CPROVER_assert (R.sf.samplerate == rate, "sample rate (32 bit field: every rate)") ; /*@C04.samplerate_round_trip*/ /*@C10.written_file_reopens_with_its_rate*/
	__CPROVER_assert ((R.sf.format & SF_FORMAT_TYPEMASK) == SF_FORMAT_MAT5 && (R.sf.format & SF_FORMAT_SUBMASK) == SUBFORMAT, "container and encoding") ; /*@C04.format_round_trip*/ /*@C10.written_file_reopens_as_same_format*/
	__CPROVER_assert (R.endian == endian_nd, "byte order") ; /*@C04.endian_round_trip*/
	__CPROVER_assert (R.dataoffset == D, "data offset") ; /*@C04.dataoffset_round_trip*/
	__CPROVER_assert (R.bytewidth == BYTEW, "sample width") ; /*@C04.geometry_round_trip*/
	__CPROVER_assert (R.sf.frames == N, "frame count F == N") ; /*@C04.frames_round_trip*/ /*@C11.frames_written_so_far*/
	CANARY () ;
}
