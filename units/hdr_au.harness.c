/* C04 / C11 / C10 (C14): AU header write/read pair lemma through the REAL code:
** au_write_header (psf, SF_TRUE)  ->  bytes in a memory-backed virtual file  ->  au_read_header,
** both running on the real psf_binheader_writef / psf_binheader_readf and the real file_io.c
** primitives (virtual-I/O route).  Plain (non-DFCC) harness: the only stand-ins are the
** caller's SF_VIRTUAL_IO callbacks (a byte array for the header region; the audio region is
** only a length) and psf_log_printf (compiled out in this translation unit).  Loops are the
** characters of literal format strings and the constant number of header fields: unwound
** completely (unwinding assertions on).
**
** Symbolic: frames written N, sample rate, byte order; enumerated: channel count, encoding.
*/
#include "env_pre.h"
#define psf_log_printf(...)		verif_nolog ()
#include "au.c"
void verif_nolog (void) { }
#include "ghost.h"

#ifndef CH
#define CH 2
#endif
#ifndef SUBFORMAT
#define SUBFORMAT SF_FORMAT_PCM_16
#endif
#ifndef BYTEW
#define BYTEW 2
#endif
#define BLOCKW (CH * BYTEW)
#define STORE 64
#define HDRBUF 256	/* HDRBUF of common.c: psf_allocate gives every handle a 256 byte header cache */

/* ---- the caller's virtual I/O: a file whose first STORE bytes are stored, the rest is only a length ---- */
static unsigned char store [STORE] ;
static sf_count_t vpos, vlen ;
static int vfail ;
static sf_count_t v_get_filelen (void *u) { return vlen ; }
static sf_count_t v_seek (sf_count_t off, int whence, void *u)
{	if (whence == SEEK_SET) vpos = off ; else if (whence == SEEK_CUR) vpos += off ; else vpos = vlen + off ;
	return vpos ;
}
static sf_count_t v_read (void *p, sf_count_t n, void *u)
{	if (vpos + n > vlen) n = vlen - vpos ;
	if (n <= 0) return 0 ;
	__CPROVER_assert (vpos >= 0 && vpos + n <= STORE, "harness store: reads stay in the stored header region") ;
	for (sf_count_t k = 0 ; k < n ; k++) ((unsigned char *) p) [k] = store [vpos + k] ;
	vpos += n ; return n ;
}
static sf_count_t v_write (const void *p, sf_count_t n, void *u)
{	if (n <= 0) return 0 ;
	__CPROVER_assert (vpos >= 0 && vpos + n <= STORE, "C11.header_update_stays_below_the_audio_data: header writes stay in the header region") ;
	for (sf_count_t k = 0 ; k < n ; k++) store [vpos + k] = ((const unsigned char *) p) [k] ;
	vpos += n ; if (vpos > vlen) vlen = vpos ; return n ;
}
static sf_count_t v_tell (void *u) { return vpos ; }

static unsigned char hbuf_w [HDRBUF], hbuf_r [HDRBUF] ;
static SF_PRIVATE W, R ;

static void init_handle (SF_PRIVATE *psf, unsigned char *hbuf, int mode)
{	psf->virtual_io = SF_TRUE ; psf->file.mode = mode ;
	psf->vio.get_filelen = v_get_filelen ; psf->vio.seek = v_seek ; psf->vio.read = v_read ; psf->vio.write = v_write ; psf->vio.tell = v_tell ;
	psf->header.ptr = hbuf ; psf->header.len = HDRBUF ; psf->header.indx = 0 ; psf->header.end = 0 ;
	psf->sf.seekable = SF_TRUE ;
}

void h_au_pair (void)
{	sf_count_t N ; int rate, endian_nd, midstream ;
	__CPROVER_assume (0 <= N && N <= (1LL << 40)) ;
	__CPROVER_assume (1 <= rate) ;
	__CPROVER_assume (endian_nd == SF_ENDIAN_BIG || endian_nd == SF_ENDIAN_LITTLE) ;

	/* ---- writer side: state of a handle after N frames were accepted ---- */
	init_handle (&W, hbuf_w, SFM_WRITE) ;
	W.sf.channels = CH ; W.sf.samplerate = rate ; W.sf.format = SF_FORMAT_AU | SUBFORMAT ; W.endian = endian_nd ;
	W.bytewidth = BYTEW ; W.blockwidth = BLOCKW ; W.dataoffset = AU_DATA_OFFSET ; W.sf.frames = N ; W.have_written = SF_TRUE ;
	vlen = AU_DATA_OFFSET + N * BLOCKW ;	/* header + the audio bytes the write calls stored */
	vpos = vlen ;							/* the writer sits at the end of the audio */
	int werr = au_write_header (&W, SF_TRUE) ;
	__CPROVER_assert (werr == 0, "header accepted: encodings sf_format_check admits are written") ; /*@C10.accepted_format_is_writable*/
	__CPROVER_assert (vpos == AU_DATA_OFFSET + N * BLOCKW, "file position restored after the header rewrite") ; /*@C11.header_update_restores_position*/
	__CPROVER_assert (vlen == AU_DATA_OFFSET + N * BLOCKW, "file length unchanged by the header rewrite") ; /*@C11.header_update_does_not_grow_the_file*/
	__CPROVER_assert (W.dataoffset == AU_DATA_OFFSET, "data offset unchanged") ; /*@C11.header_does_not_move_the_audio*/

	/* ---- reader side: a fresh handle on the same bytes ---- */
	init_handle (&R, hbuf_r, SFM_READ) ;
	vpos = 0 ;
	R.filelength = vlen ;
	int rerr = au_read_header (&R) ;
	__CPROVER_assert (rerr == 0, "reader accepts what the writer produced") ; /*@C04.reopen_succeeds*/
	__CPROVER_assert (R.sf.channels == CH, "channels") ; /*@C04.channels_round_trip*/
	__CPROVER_assert (R.sf.samplerate == rate, "sample rate (exact: 32 bit field)") ; /*@C04.samplerate_round_trip*/
	__CPROVER_assert ((R.sf.format & SF_FORMAT_TYPEMASK) == SF_FORMAT_AU && (R.sf.format & SF_FORMAT_SUBMASK) == SUBFORMAT, "container and encoding") ; /*@C04.format_round_trip*/
	__CPROVER_assert (R.endian == endian_nd, "byte order") ; /*@C04.endian_round_trip*/
	__CPROVER_assert (R.dataoffset == AU_DATA_OFFSET, "data offset") ; /*@C04.dataoffset_round_trip*/
	__CPROVER_assert (R.bytewidth == BYTEW && R.blockwidth == BLOCKW, "sample geometry") ; /*@C04.geometry_round_trip*/
	__CPROVER_assert (R.sf.frames == N, "frame count F == N") ; /*@C04.frames_round_trip*/ /*@C11.frames_written_so_far*/
	CANARY () ;
}
