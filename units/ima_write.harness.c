/* C07 / C05 / C01: ima_write_block and msadpcm_write_block, the loops that stage the caller's samples in the block
** buffer of the IMA / MS ADPCM writers and run the block encoder when a block is full.  Claims: every item is
** consumed (C05); each chunk is copied from where the previous one ended in the caller's buffer to where the previous
** one ended in the block buffer -- the carry-over of earlier calls included --, the encoder runs exactly when a block
** is full, and what is left over is exactly the unfinished block: the encoder sees the concatenation of the callers'
** buffers however the calls are split (C07).  Samples per block 9, channels by -D (the code is generic in both).
*/
#include "env_pre.h"
#define psf_log_printf(...)		verif_nolog ()
#define memcpy(d, s, n)		verif_memcpy ((d), (s), (n))
void * verif_memcpy (void *dst, const void *src, size_t n) ;
#ifdef LAYOUT_GSM
#include "gsm610.c"
#include <stddef.h>
#define IMA_ADPCM_PRIVATE	GSM610_PRIVATE		/* mono; the sample buffer is a member array */
#define ima_write_block		gsm610_write_block
#define RET_T				int
#elif defined (LAYOUT_MS)
#include "ms_adpcm.c"
#define IMA_ADPCM_PRIVATE	MSADPCM_PRIVATE
#define ima_write_block		msadpcm_write_block
#define encode_block_c		msadpcm_encode_block
#define RET_T				sf_count_t
#else
#include "ima_adpcm.c"
#define RET_T				int
#endif
#undef memcpy
void verif_nolog (void) { }
#include "ghost.h"
#include "env_stubs.h"

#ifndef CH
#define CH 2
#endif
#define SPB 9
#define LEN_MAX (1 << 20)

IMA_ADPCM_PRIVATE *g_pima ; long g_consumed ; int g_enc_calls ;
int vin_len, vin_sc ;

/* E1 memcpy model for symbolic lengths, with the placement obligations */
void * verif_memcpy (void *dst, const void *src, size_t n)
{	if (n > 0)
	{	__CPROVER_assert (__CPROVER_r_ok (src, n) && __CPROVER_w_ok (dst, n), "memcpy: both ranges inside their buffers") ; /*@C05.staging_copy_stays_inside_both_buffers*/
		__CPROVER_assert ((long) __CPROVER_POINTER_OFFSET (src) == g_consumed * 2, "each chunk is taken from where the previous one ended in the caller's buffer") ; /*@C07.chunks_are_consecutive_in_the_callers_buffer*/ /*@C01.chunks_are_consecutive_in_the_callers_buffer*/
#ifdef LAYOUT_GSM
		__CPROVER_assert (__CPROVER_same_object (dst, g_pima) && (long) __CPROVER_POINTER_OFFSET (dst) == (long) offsetof (GSM610_PRIVATE, samples) + (long) g_pima->samplecount * 2,
#else
		__CPROVER_assert (__CPROVER_same_object (dst, g_pima->samples) && (long) __CPROVER_POINTER_OFFSET (dst) == (long) g_pima->samplecount * CH * 2,
#endif
			"each chunk is staged where the previous one (or the previous call) ended in the block buffer") ; /*@C07.chunks_are_consecutive_in_the_block_buffer*/ /*@C01.chunks_are_consecutive_in_the_block_buffer*/
#ifdef LAYOUT_GSM
		__CPROVER_havoc_slice (g_pima->samples, sizeof (g_pima->samples)) ;		/* the buffer is a member of the private block: the whole member array, nothing else */
#else
		__CPROVER_havoc_object (dst) ;
#endif
		g_consumed += (long) (n / 2) ;
		} ;
	return dst ;
}

static int encode_block_c (SF_PRIVATE *psf, IMA_ADPCM_PRIVATE *pima)
__CPROVER_requires (__CPROVER_r_ok (psf, sizeof (SF_PRIVATE)) && __CPROVER_w_ok (pima, sizeof (IMA_ADPCM_PRIVATE)) && 0 <= g_enc_calls && g_enc_calls <= (1 << 22))
__CPROVER_requires (pima->samplecount == SPB) /*@C07.blocks_are_encoded_exactly_when_full*/ /*@C01.blocks_are_encoded_exactly_when_full*/
__CPROVER_assigns (pima->samplecount, pima->blockcount, g_enc_calls, psf->error)
__CPROVER_ensures (pima->samplecount == 0 && g_enc_calls == __CPROVER_old (g_enc_calls) + 1)
;

static RET_T ima_write_block (SF_PRIVATE *psf, IMA_ADPCM_PRIVATE *pima, const short *ptr, int len)
#ifdef LAYOUT_GSM
__CPROVER_requires (__CPROVER_is_fresh (psf, sizeof (SF_PRIVATE)) && __CPROVER_is_fresh (pima, sizeof (IMA_ADPCM_PRIVATE)))
__CPROVER_requires (pima->samplesperblock == SPB && 0 <= pima->samplecount && pima->samplecount < SPB && pima->samplecount == vin_sc && pima == g_pima)
#else
__CPROVER_requires (__CPROVER_is_fresh (psf, sizeof (SF_PRIVATE)) && __CPROVER_is_fresh (pima, sizeof (IMA_ADPCM_PRIVATE)) && __CPROVER_is_fresh (pima->samples, SPB * CH * 2))
__CPROVER_requires (pima->channels == CH && pima->samplesperblock == SPB && 0 <= pima->samplecount && pima->samplecount < SPB && pima->samplecount == vin_sc && pima == g_pima)
#endif
#ifndef LAYOUT_MS
__CPROVER_requires (__CPROVER_obeys_contract (pima->encode_block, encode_block_c))
#endif
__CPROVER_requires (0 < len && len <= LEN_MAX && len % CH == 0 && len == vin_len && __CPROVER_is_fresh (ptr, (size_t) len * 2) && g_consumed == 0 && g_enc_calls == 0)
#ifdef LAYOUT_GSM
__CPROVER_assigns (pima->samplecount, pima->blockcount, g_enc_calls, g_consumed, psf->error, __CPROVER_object_upto ((char *) pima->samples, 640))
#else
__CPROVER_assigns (pima->samplecount, pima->blockcount, g_enc_calls, g_consumed, psf->error, __CPROVER_object_whole (pima->samples))
#endif
__CPROVER_ensures (__CPROVER_return_value == vin_len && g_consumed == vin_len) /*@C05.every_item_consumed*/ /*@C01.every_item_consumed*/
__CPROVER_ensures (pima->samplecount < SPB && (long) pima->samplecount * CH == (long) vin_sc * CH + vin_len - (long) g_enc_calls * SPB * CH) /*@C07.carry_over_is_the_unfinished_block*/ /*@C01.carry_over_is_the_unfinished_block*/
;

void h_ima_write_block (void)
{	SF_PRIVATE *psf ; IMA_ADPCM_PRIVATE *pima ; const short *ptr ; int len ;
#ifndef LAYOUT_MS
	void *keep_c [] = { (void *) encode_block_c } ; (void) keep_c ;
#endif
	{ int a [2] ; IMA_ADPCM_PRIVATE *p ; vin_len = a [0] ; vin_sc = a [1] ; g_pima = p ; }
	g_consumed = 0 ; g_enc_calls = 0 ;
	int r = (int) ima_write_block (psf, pima, ptr, len) ;
	REACH (g_enc_calls >= 2, "call spans several blocks") ;
	REACH (g_enc_calls == 0 && vin_sc > 0, "call only adds to a waiting block") ;
	CANARY () ;
}
