/* C11 (C07): sds_write_header (src/sds.c).  A header update in mid stream flushes the partly filled packet as a
** provisional, zero padded packet so that the bytes on disk are a valid file -- and must leave the writer exactly
** where it was: same file position (the next complete packet overwrites the provisional one), same packet
** counters.  Ghost file position g_pos driven by the contracts of psf_ftell / psf_fseek / psf_fwrite and of the
** packet writer hook; psf_binheader_writef (variadic) is redirected to a model that advances the header cache.
*/
#include "env_pre.h"
#define psf_log_printf(...)				verif_nolog ()
#define psf_binheader_writef(psf, ...)	verif_writef (psf)
struct sf_private_tag ;
int verif_writef (struct sf_private_tag *psf) ;
#include "sds.c"
void verif_nolog (void) { }
#include "ghost.h"
#include "env_stubs.h"

#define HDRLEN 256
int verif_writef (SF_PRIVATE *psf)
{	int n_nd ; int n = n_nd ;
	__CPROVER_assume (0 <= n && n <= 16 && psf->header.indx + n <= HDRLEN - 16) ;
	psf->header.indx += n ;
	return n ;
}

sf_count_t g_pos ; int g_writer_calls ;
sf_count_t vin_pos ; int vin_count, vin_block, vin_calc ;

sf_count_t psf_ftell (SF_PRIVATE *psf)
__CPROVER_requires (__CPROVER_r_ok (psf, sizeof (SF_PRIVATE)))
__CPROVER_assigns ()
__CPROVER_ensures (__CPROVER_return_value == g_pos)
;
sf_count_t psf_fseek (SF_PRIVATE *psf, sf_count_t offset, int whence)
__CPROVER_requires (__CPROVER_r_ok (psf, sizeof (SF_PRIVATE)) && (whence == SEEK_SET || whence == SEEK_CUR) && -(1LL << 50) <= offset && offset <= (1LL << 50) && 0 <= g_pos && g_pos <= (1LL << 50))
__CPROVER_assigns (g_pos)
__CPROVER_ensures (g_pos == (whence == SEEK_SET ? offset : __CPROVER_old (g_pos) + offset))
;
sf_count_t psf_fwrite (const void *ptr, sf_count_t bytes, sf_count_t items, SF_PRIVATE *psf)
__CPROVER_requires (__CPROVER_r_ok (psf, sizeof (SF_PRIVATE)) && bytes >= 0 && bytes <= HDRLEN && items == 1 && __CPROVER_r_ok (ptr, (size_t) bytes) && 0 <= g_pos && g_pos <= (1LL << 50))
__CPROVER_assigns (g_pos, psf->error)
__CPROVER_ensures (g_pos >= __CPROVER_old (g_pos) && g_pos <= __CPROVER_old (g_pos) + bytes)
;
/* the packet writers (sds_2/3/4byte_write): zero pad and emit the current packet, start the next one */
static int packet_writer_c (SF_PRIVATE *psf, SDS_PRIVATE *psds)
__CPROVER_requires (__CPROVER_r_ok (psf, sizeof (SF_PRIVATE)) && __CPROVER_w_ok (psds, sizeof (SDS_PRIVATE)) && 0 <= g_pos && g_pos <= (1LL << 50) && 0 <= psds->write_block && psds->write_block <= (1 << 24))
__CPROVER_assigns (g_pos, g_writer_calls, psds->write_block, psds->write_count, __CPROVER_object_upto (psds->write_data, SDS_BLOCK_SIZE), __CPROVER_object_upto ((unsigned char *) psds->write_samples, sizeof (psds->write_samples)), psf->error)
__CPROVER_ensures (g_pos == __CPROVER_old (g_pos) + SDS_BLOCK_SIZE && g_writer_calls == __CPROVER_old (g_writer_calls) + 1)
__CPROVER_ensures (psds->write_block == __CPROVER_old (psds->write_block) + 1 && psds->write_count == 0)
;

#define PSDS	((SDS_PRIVATE *) psf->codec_data)

static int sds_write_header (SF_PRIVATE *psf, int calc_length)
__CPROVER_requires (__CPROVER_is_fresh (psf, sizeof (SF_PRIVATE)) && __CPROVER_is_fresh (psf->codec_data, sizeof (SDS_PRIVATE)) && __CPROVER_is_fresh (psf->header.ptr, HDRLEN) && psf->header.len == HDRLEN)
__CPROVER_requires (__CPROVER_obeys_contract (PSDS->writer, packet_writer_c))
/* format limits: the 21 bit length field, the 21 bit sample period (outside them the 7-bit packing macro shifts out of int) */
__CPROVER_requires (psf->sf.samplerate >= 2 && psf->pipeoffset == 0 && psf->is_pipe == SF_FALSE && psf->error == 0)
__CPROVER_requires (0 <= PSDS->write_count && PSDS->write_count < SDS_BLOCK_SIZE / 2 && PSDS->write_count == vin_count && 0 <= PSDS->write_block && PSDS->write_block <= (1 << 23) && PSDS->write_block == vin_block)
__CPROVER_requires (0 <= PSDS->total_written && PSDS->total_written <= 0x1FFFFF && g_pos == vin_pos && 0 <= g_pos && g_pos <= (1LL << 40) && g_writer_calls == 0 && calc_length == vin_calc)
__CPROVER_assigns (__CPROVER_object_whole (psf->codec_data), __CPROVER_object_whole (psf->header.ptr), psf->header.indx, psf->sf.frames, psf->dataoffset, psf->datalength, psf->error, g_pos, g_writer_calls)
__CPROVER_ensures ((__CPROVER_return_value == 0 && vin_pos > 0) ==> g_pos == vin_pos) /*@C11.header_update_restores_position*/ /*@C07.header_update_restores_position*/
__CPROVER_ensures (__CPROVER_return_value == 0 ==> (PSDS->write_count == vin_count && PSDS->write_block == vin_block)) /*@C11.header_update_keeps_the_packet_counters*/ /*@C07.header_update_keeps_the_packet_counters*/
__CPROVER_ensures (g_writer_calls == (vin_count > 0 ? 1 : 0)) /*@C11.partly_filled_packet_flushed_once*/
__CPROVER_ensures ((__CPROVER_return_value == 0 && vin_calc) ==> psf->sf.frames == PSDS->total_written) /*@C11.frames_written_so_far*/
;

void h_sds_write_header (void)
{	SF_PRIVATE *psf ; int calc ;
	void *keep_c [] = { (void *) packet_writer_c } ; (void) keep_c ;
	{ sf_count_t a ; int b [3] ; vin_pos = a ; g_pos = a ; vin_count = b [0] ; vin_block = b [1] ; vin_calc = b [2] ; }
	g_writer_calls = 0 ;
	int r = sds_write_header (psf, calc) ;
	REACH (r == 0 && vin_count > 0 && vin_pos > 0, "header update with a partly filled packet") ;
	CANARY () ;
}
