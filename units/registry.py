"""Unit registry: every verification unit of the project.

A unit names ONE real function of /repo/src (`enforce`) whose contract is
enforced by DFCC, the callees that are replaced by *their* contracts
(`replace`), the loop contracts (`loops`, keyed by function and loop
ordinal; the symbol_map is regenerated from the goto symbol table on every
run) and the properties it serves.  Families of near identical functions are
generated from templates in this directory (gen_*.py); the contract text they
emit is ordinary CBMC contract syntax over the spec macros in /verif/spec.
"""
import os, sys, importlib

HERE = os.path.dirname(os.path.abspath(__file__))
sys.path.insert(0, HERE)

GEN_MODULES = ["gen_pcm_kernels", "gen_g711", "gen_chunk", "gen_sndfile", "gen_pcm_rw",
               "gen_command", "gen_fileio", "gen_common", "gen_open", "gen_headers",
               "gen_peak", "gen_close", "gen_strings", "gen_inventory", "gen_float",
               "gen_adpcm", "gen_pairs", "gen_lemmas"]

# sub-claims that no unit decides, per property (copied into every evidence file)
NOT_DECIDED = {}
# property specific assumptions (contract bounds etc.)
ASSUMPTIONS = {}


def units():
    out = []
    for m in GEN_MODULES:
        p = os.path.join(HERE, m + ".py")
        if not os.path.exists(p):
            continue
        mod = importlib.import_module(m)
        out.extend(mod.units())
        for k, v in getattr(mod, "NOT_DECIDED", {}).items():
            NOT_DECIDED.setdefault(k, [])
            for x in v:
                if x not in NOT_DECIDED[k]:
                    NOT_DECIDED[k].append(x)
        for k, v in getattr(mod, "ASSUMPTIONS", {}).items():
            ASSUMPTIONS.setdefault(k, [])
            for x in v:
                if x not in ASSUMPTIONS[k]:
                    ASSUMPTIONS[k].append(x)
    names = set()
    for u in out:
        assert u["name"] not in names, "duplicate unit " + u["name"]
        names.add(u["name"])
    return out
