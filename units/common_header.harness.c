/* C03 / C15 / C14 / C19: the header cache of src/common.c (psf_bump_header_allocation,
** header_read, header_seek, header_gets) keeps its representation invariant
**     HDR_WF: header.ptr is a block of header.len bytes, 256 <= len <= 100 KiB,
**             0 <= indx <= len, 0 <= end <= len
** for every request size, every position and every I/O outcome (short and zero-length reads,
** failed seeks), never reads or writes outside the block or the caller's buffer, and the
** read-to-skip loop used on pipes terminates for every I/O outcome.
*/
#include "env_pre.h"
#define memset(p, c, n)				verif_memset ((p), (c), (n))
void * verif_memset (void *p, int c, size_t n) ;
#include "common.c"
#include "ghost.h"
#include "io_contracts.h"
#include "env_stubs.h"

/* DFCC sizes its write-set loops from the largest assigns clause among the contracts in use and then fails its own
** unwinding assertion when a frees target comes on top (measured): this never-called contract only raises that bound */
int verif_pad_g [10] ;
void verif_pad_contract (void)
__CPROVER_assigns (verif_pad_g [0], verif_pad_g [1], verif_pad_g [2], verif_pad_g [3], verif_pad_g [4], verif_pad_g [5], verif_pad_g [6], verif_pad_g [7], verif_pad_g [8], verif_pad_g [9])
;
size_t g_byte ;
unsigned char g_oldbyte ;
sf_count_t vin_len, vin_indx, vin_end, vin_position, vin_needed ;
int vin_whence, vin_bytes, vin_is_pipe ;

/* E1: realloc may fail; on success a fresh block of the requested size, the old block released; of the
** common prefix byte g_byte is preserved (all other bytes unconstrained: weaker than the real function) */
void * realloc (void *ptr, size_t size)
{	_Bool fail_nd ;
	if (fail_nd) return NULL ;
	unsigned char * n = malloc (size) ;
	if (n == NULL) return NULL ;
	if (ptr != NULL)
	{	if (g_byte < size && __CPROVER_r_ok (ptr, g_byte + 1))
			n [g_byte] = ((const unsigned char *) ptr) [g_byte] ;
#ifndef REALLOC_KEEPS_OLD_BLOCK
		free (ptr) ;
#endif
		/* with REALLOC_KEEPS_OLD_BLOCK (bump unit) the old block is not released in the model: DFCC fails its own
		** unwinding assertion when a frees clause meets a replaced callee with a non-empty assigns clause (measured);
		** the release of the old block is then not part of what this unit establishes */
		} ;
	return n ;
}
/* E1: memset with a symbolic length: the range must be writable; of the range only byte g_byte is known to
** hold the fill value afterwards (weaker than the real function) */
void * verif_memset (void *p, int c, size_t n)
{	if (n > 0)
	{	__CPROVER_assert (__CPROVER_w_ok (p, n), "E1 memset: destination writable for n bytes") ;
		size_t off = __CPROVER_POINTER_OFFSET (p) ;
		if (g_byte >= off && g_byte - off < n)
			((unsigned char *) p) [g_byte - off] = (unsigned char) c ;
		} ;
	return p ;
}

/* psf_log_printf is variadic (DFCC cannot instrument its body): every call is replaced by this frame contract */
void psf_log_printf (SF_PRIVATE *psf, const char *format, ...)
__CPROVER_requires (psf != NULL && __CPROVER_r_ok (psf, sizeof (SF_PRIVATE)))
__CPROVER_assigns (psf->parselog)
;

#define HDR_MAX		(100 * 1024)
#define HDR_WF(psf)	(__CPROVER_is_fresh ((psf)->header.ptr, (size_t) (psf)->header.len) \
	&& INITIAL_HEADER_SIZE <= (psf)->header.len && (psf)->header.len <= HDR_MAX \
	&& 0 <= (psf)->header.indx && (psf)->header.indx <= (psf)->header.len \
	&& 0 <= (psf)->header.end && (psf)->header.end <= (psf)->header.len)
#define HDR_WF_POST(psf)	(__CPROVER_w_ok ((psf)->header.ptr, (size_t) (psf)->header.len) \
	&& INITIAL_HEADER_SIZE <= (psf)->header.len && (psf)->header.len <= HDR_MAX \
	&& 0 <= (psf)->header.indx && (psf)->header.indx <= (psf)->header.len \
	&& 0 <= (psf)->header.end && (psf)->header.end <= (psf)->header.len)
#define MIRROR(psf)	((psf)->header.len == vin_len && (psf)->header.indx == vin_indx && (psf)->header.end == vin_end && (psf)->is_pipe == vin_is_pipe)

#ifdef UNIT_BUMP
int psf_bump_header_allocation (SF_PRIVATE * psf, sf_count_t needed)
__CPROVER_requires (__CPROVER_is_fresh (psf, sizeof (SF_PRIVATE)) && HDR_WF (psf) && MIRROR (psf))
__CPROVER_requires (-(1LL << 40) <= needed && needed <= (1LL << 40) && needed == vin_needed)
__CPROVER_requires ((g_byte < (size_t) psf->header.len) ==> psf->header.ptr [g_byte] == g_oldbyte)
__CPROVER_assigns (psf->error, psf->header.ptr, psf->header.len, psf->parselog, verif_pad_g [0], verif_pad_g [1], verif_pad_g [2], verif_pad_g [3])
__CPROVER_ensures (HDR_WF_POST (psf)) /*@C03.bump_keeps_header_wf*/
__CPROVER_ensures (__CPROVER_return_value == 0 || __CPROVER_return_value == 1) /*@C03.bump_ret*/
__CPROVER_ensures (__CPROVER_return_value == 0 ==> (psf->header.len == (vin_needed > vin_len ? 2 * (vin_needed > INITIAL_HEADER_SIZE ? vin_needed : INITIAL_HEADER_SIZE) : 2 * vin_len))) /*@C03.bump_success_doubles*/
__CPROVER_ensures (__CPROVER_return_value != 0 ==> psf->header.len == vin_len) /*@C03.bump_refusal_changes_nothing*/
__CPROVER_ensures ((g_byte < (size_t) vin_len) ==> psf->header.ptr [g_byte] == g_oldbyte) /*@C03.bump_preserves_cached_bytes*/
__CPROVER_ensures (psf->header.indx == vin_indx && psf->header.end == vin_end) /*@C03.bump_keeps_cursor*/
;

#else
/* replacement contract used by the callers.  It does not free the old block (DFCC cannot express "freed on success
** only" for a replaced call: measured); sound for the callers as long as they keep no pointer into the old block
** across the call, which is listed in the trusted base. */
int psf_bump_header_allocation (SF_PRIVATE * psf, sf_count_t needed)
__CPROVER_requires (__CPROVER_r_ok (psf, sizeof (SF_PRIVATE)) && HDR_WF_POST (psf))
__CPROVER_assigns (psf->error, psf->header.ptr, psf->header.len, psf->parselog)
__CPROVER_ensures (__CPROVER_return_value == 0 || __CPROVER_return_value == 1)
__CPROVER_ensures (__CPROVER_return_value == 0 ==> (__CPROVER_is_fresh (psf->header.ptr, (size_t) psf->header.len) && psf->header.len == (needed > __CPROVER_old (psf->header.len) ? 2 * (needed > INITIAL_HEADER_SIZE ? needed : INITIAL_HEADER_SIZE) : 2 * __CPROVER_old (psf->header.len)) && psf->header.len <= HDR_MAX))
__CPROVER_ensures (__CPROVER_return_value != 0 ==> (psf->header.len == __CPROVER_old (psf->header.len) && psf->header.ptr == __CPROVER_old (psf->header.ptr)
					&& __CPROVER_w_ok (psf->header.ptr, (size_t) psf->header.len)))
;

#endif

static int header_read (SF_PRIVATE *psf, void *ptr, int bytes)
__CPROVER_requires (__CPROVER_is_fresh (psf, sizeof (SF_PRIVATE)) && HDR_WF (psf) && MIRROR (psf))
__CPROVER_requires (0 <= bytes && bytes <= 65536 && bytes == vin_bytes)
__CPROVER_requires (__CPROVER_is_fresh (ptr, bytes > 0 ? (size_t) bytes : 1))
__CPROVER_assigns (psf->error, psf->pipeoffset, psf->syserr, psf->header.ptr, psf->header.len, psf->header.indx, psf->header.end, psf->parselog, __CPROVER_object_whole (&gio), __CPROVER_object_whole (psf->header.ptr), __CPROVER_object_whole (ptr))
__CPROVER_ensures (HDR_WF_POST (psf)) /*@C03.header_read_keeps_header_wf*/
__CPROVER_ensures (0 <= __CPROVER_return_value && __CPROVER_return_value <= bytes + (vin_indx > vin_end ? vin_indx - vin_end : 0)) /*@C03.header_read_ret_range*/
__CPROVER_ensures (__CPROVER_return_value == bytes ==> psf->header.indx == vin_indx + bytes || gio.io_short) /*@C03.header_read_advances_cursor*/
;

static void header_seek (SF_PRIVATE *psf, sf_count_t position, int whence)
__CPROVER_requires (__CPROVER_is_fresh (psf, sizeof (SF_PRIVATE)) && HDR_WF (psf) && MIRROR (psf))
__CPROVER_requires (-(1LL << 40) <= position && position <= (1LL << 40) && position == vin_position && whence == vin_whence)
/* caller obligation (psf_binheader_readf "p"): absolute header positions are not negative */
__CPROVER_requires (whence != SEEK_SET || position >= 0)
__CPROVER_assigns (psf->error, psf->pipeoffset, psf->syserr, psf->header.ptr, psf->header.len, psf->header.indx, psf->header.end, psf->parselog, __CPROVER_object_whole (&gio), __CPROVER_object_whole (psf->header.ptr))
__CPROVER_ensures (HDR_WF_POST (psf)) /*@C03.header_seek_keeps_header_wf*/
__CPROVER_ensures ((vin_is_pipe && vin_whence == SEEK_CUR) ==> gio.fseek_calls == 0 || vin_indx >= vin_len) /*@C14.pipe_skip_reads_instead_of_seeking*/
;

static int header_gets (SF_PRIVATE *psf, char *ptr, int bufsize)
__CPROVER_requires (__CPROVER_is_fresh (psf, sizeof (SF_PRIVATE)) && HDR_WF (psf) && MIRROR (psf))
__CPROVER_requires (1 <= bufsize && bufsize <= 4096 && bufsize == vin_bytes)
__CPROVER_requires (__CPROVER_is_fresh (ptr, (size_t) bufsize))
__CPROVER_assigns (psf->error, psf->pipeoffset, psf->syserr, psf->header.ptr, psf->header.len, psf->header.indx, psf->header.end, psf->parselog, __CPROVER_object_whole (&gio), __CPROVER_object_whole (psf->header.ptr), __CPROVER_object_whole (ptr))
__CPROVER_ensures (HDR_WF_POST (psf)) /*@C03.header_gets_keeps_header_wf*/
__CPROVER_ensures (0 <= __CPROVER_return_value && __CPROVER_return_value < bufsize) /*@C03.header_gets_ret_range*/
__CPROVER_ensures (__CPROVER_return_value > 0 ==> ptr [__CPROVER_return_value] == 0) /*@C03.header_gets_terminates_string_within_buffer*/
;

#define HAVOC_MIRRORS()	do { sf_count_t a [5] ; int b [3] ; size_t c ; unsigned char d ; vin_len = a [0] ; vin_indx = a [1] ; vin_end = a [2] ; \
	vin_position = a [3] ; vin_needed = a [4] ; vin_whence = b [0] ; vin_bytes = b [1] ; vin_is_pipe = b [2] ; g_byte = c ; g_oldbyte = d ; \
	gio.io_short = 0 ; gio.fread_calls = 0 ; gio.fwrite_calls = 0 ; gio.fseek_calls = 0 ; } while (0)

void h_bump (void)
{	SF_PRIVATE *psf ; sf_count_t needed ;
	HAVOC_MIRRORS () ;
	int r = psf_bump_header_allocation (psf, needed) ;
	REACH (r == 0 && vin_needed > vin_len, "growth on demand") ;
	REACH (r == 1, "refused (cap or allocation failure)") ;
	verif_pad_contract () ;
	CANARY () ;
}
void h_header_read (void)
{	SF_PRIVATE *psf ; void *ptr ; int bytes ;
	HAVOC_MIRRORS () ;
	int r = header_read (psf, ptr, bytes) ;
	REACH (r == vin_bytes && r > 0 && gio.fread_calls == 1, "read through to the file") ;
	REACH (r < vin_bytes, "short") ;
	verif_pad_contract () ;
	CANARY () ;
}
void h_header_seek (void)
{	SF_PRIVATE *psf ; sf_count_t position ; int whence ;
	HAVOC_MIRRORS () ;
	header_seek (psf, position, whence) ;
	REACH (vin_is_pipe && gio.fread_calls > 1, "pipe skip in several reads") ;
	REACH (vin_whence == SEEK_SET && gio.fseek_calls == 1, "too big to cache") ;
	verif_pad_contract () ;
	CANARY () ;
}
void h_header_gets (void)
{	SF_PRIVATE *psf ; char *ptr ; int bufsize ;
	HAVOC_MIRRORS () ;
	int r = header_gets (psf, ptr, bufsize) ;
	REACH (r > 2, "several characters") ;
	verif_pad_contract () ;
	CANARY () ;
}
