/* C05 / C15 / C06: ima_read_block (src/ima_adpcm.c), the loop that hands decoded IMA ADPCM samples to the caller and
** asks for the next block when the current one is used up.  Claims: the count returned is 0 <= r <= len, whole frames
** when len is; only ptr [0 .. len) is written; the items consumed from the decoded stream are exactly r (the in-block
** index and the number of decoder calls account for them); r < len only at the end of the data, and then the rest of
** the requested region is zero filled; the loop terminates whatever the decoder does to the block state within its
** contract.  Block geometry enumerated (samples per block 9, channels by -D: the code is generic in both).
*/
#include "env_pre.h"
#define psf_log_printf(...)		verif_nolog ()
/* E1 models for symbolic lengths: ranges asserted; memset leaves byte g_zero (ghost offset) as written, memcpy leaves the destination unconstrained */
#define memcpy(d, s, n)		verif_memcpy ((d), (s), (n))
#define memset(d, c, n)		verif_memset ((d), (c), (n))
void * verif_memcpy (void *dst, const void *src, size_t n) ;
void * verif_memset (void *dst, int c, size_t n) ;
#ifdef LAYOUT_GSM
#include "gsm610.c"
#define IMA_ADPCM_PRIVATE	GSM610_PRIVATE		/* same reader state fields; mono, the sample buffer is a member array */
#define ima_read_block		gsm610_read_block
#define RET_T				int
#elif defined (LAYOUT_MS)
#include "ms_adpcm.c"
#define IMA_ADPCM_PRIVATE	MSADPCM_PRIVATE		/* same reader state fields */
#define ima_read_block		msadpcm_read_block
#define decode_block_c		msadpcm_decode_block	/* called directly: replaced by the contract below */
#define RET_T				sf_count_t
#else
#include "ima_adpcm.c"
#define RET_T				int
#endif
#undef memcpy
#undef memset
void verif_nolog (void) { }
#include "ghost.h"
#include "env_stubs.h"

#ifndef CH
#define CH 2
#endif
#define SPB 9
#define LEN_MAX (1 << 20)

size_t g_zero ;		/* ghost byte offset inside the caller's buffer */
int g_decode_calls, g_zero_filled, g_decode_failed ; size_t g_zero_from ;
short *g_ptr ;		/* the caller's buffer */

void * verif_memcpy (void *dst, const void *src, size_t n)
{	if (n > 0)
	{	__CPROVER_assert (__CPROVER_r_ok (src, n), "memcpy: source readable for n bytes (inside the decoded block)") ; /*@C05.copy_stays_inside_the_decoded_block*/
		__CPROVER_assert (__CPROVER_w_ok (dst, n), "memcpy: destination writable for n bytes (inside the requested region)") ; /*@C05.copy_stays_inside_the_requested_region*/
		__CPROVER_havoc_object (dst) ;
		} ;
	return dst ;
}
void * verif_memset (void *dst, int c, size_t n)
{	if (n > 0)
	{	__CPROVER_assert (__CPROVER_w_ok (dst, n), "memset: destination writable for n bytes (inside the requested region)") ; /*@C05.zero_fill_stays_inside_the_requested_region*/
		__CPROVER_assert (c == 0, "E1 memset model: zero fill") ;
		__CPROVER_havoc_object (dst) ;
		g_zero_filled = 1 ; g_zero_from = (size_t) __CPROVER_POINTER_OFFSET (dst) ;		/* the caller's buffer is an object of its own: offset inside it */
		if (g_zero >= g_zero_from && g_zero < g_zero_from + n) ((char *) dst) [g_zero - g_zero_from] = 0 ;
		} ;
	return dst ;
}

static int decode_block_c (SF_PRIVATE *psf, IMA_ADPCM_PRIVATE *pima)
__CPROVER_requires (__CPROVER_r_ok (psf, sizeof (SF_PRIVATE)) && __CPROVER_w_ok (pima, sizeof (IMA_ADPCM_PRIVATE)) && 0 <= pima->blockcount && pima->blockcount <= (1 << 24) && 0 <= g_decode_calls && g_decode_calls <= (1 << 24))
#ifdef LAYOUT_MS
/* msadpcm_decode_block may fail (nothing could be read): it then reports it and the reader stops */
__CPROVER_assigns (pima->blockcount, pima->samplecount, g_decode_calls, g_decode_failed, psf->error, __CPROVER_object_upto ((char *) pima->samples, SPB * CH * 2))
__CPROVER_ensures (pima->blockcount == __CPROVER_old (pima->blockcount) + 1 && pima->samplecount == 0)
__CPROVER_ensures (__CPROVER_return_value == 0 ? (g_decode_calls == __CPROVER_old (g_decode_calls) + 1 && g_decode_failed == __CPROVER_old (g_decode_failed))
	: (g_decode_failed == 1 && g_decode_calls == __CPROVER_old (g_decode_calls)))
#else
__CPROVER_assigns (pima->blockcount, pima->samplecount, g_decode_calls, psf->error, __CPROVER_object_upto ((char *) pima->samples, SPB * CH * 2))
__CPROVER_ensures (pima->blockcount == __CPROVER_old (pima->blockcount) + 1 && pima->samplecount == 0 && g_decode_calls == __CPROVER_old (g_decode_calls) + 1)
#endif
;

int vin_len, vin_sc, vin_bc, vin_blocks ;

static RET_T ima_read_block (SF_PRIVATE *psf, IMA_ADPCM_PRIVATE *pima, short *ptr, int len)
#ifdef LAYOUT_GSM
__CPROVER_requires (__CPROVER_is_fresh (psf, sizeof (SF_PRIVATE)) && __CPROVER_is_fresh (pima, sizeof (IMA_ADPCM_PRIVATE)))
__CPROVER_requires (pima->samplesperblock == SPB && 0 <= pima->blocks && pima->blocks <= (1 << 20) && pima->blocks == vin_blocks)
#else
__CPROVER_requires (__CPROVER_is_fresh (psf, sizeof (SF_PRIVATE)) && __CPROVER_is_fresh (pima, sizeof (IMA_ADPCM_PRIVATE)) && __CPROVER_is_fresh (pima->samples, SPB * CH * 2))
__CPROVER_requires (pima->channels == CH && pima->samplesperblock == SPB && 0 <= pima->blocks && pima->blocks <= (1 << 20) && pima->blocks == vin_blocks)
#endif
__CPROVER_requires (0 <= pima->samplecount && pima->samplecount <= SPB && pima->samplecount == vin_sc && 0 <= pima->blockcount && pima->blockcount <= pima->blocks && pima->blockcount == vin_bc)
#ifndef LAYOUT_MS
__CPROVER_requires (__CPROVER_obeys_contract (pima->decode_block, decode_block_c))
#endif
__CPROVER_requires (g_decode_failed == 0)
__CPROVER_requires (0 < len && len <= LEN_MAX && len % CH == 0 && len == vin_len && __CPROVER_is_fresh (ptr, (size_t) len * 2) && ptr == g_ptr)
__CPROVER_requires (g_decode_calls == 0 && g_zero_filled == 0 && g_zero < (size_t) len * 2)
#ifdef LAYOUT_GSM
__CPROVER_assigns (g_decode_calls, g_decode_failed, g_zero_filled, g_zero_from, psf->error, __CPROVER_object_whole (ptr), __CPROVER_object_whole (pima))
#else
__CPROVER_assigns (pima->blockcount, pima->samplecount, g_decode_calls, g_decode_failed, g_zero_filled, g_zero_from, psf->error, __CPROVER_object_whole (ptr), __CPROVER_object_whole (pima->samples))
#endif
__CPROVER_ensures (0 <= __CPROVER_return_value && __CPROVER_return_value <= vin_len && __CPROVER_return_value % CH == 0) /*@C05.impl_ret_range*/ /*@C15.impl_ret_range*/
__CPROVER_ensures (!g_decode_failed ==> (long) __CPROVER_return_value == ((long) g_decode_calls * SPB + pima->samplecount - vin_sc) * CH) /*@C05.items_returned_are_the_items_consumed*/ /*@C06.items_returned_are_the_items_consumed*/
__CPROVER_ensures ((__CPROVER_return_value < vin_len && !g_decode_failed) ==> (pima->blockcount >= vin_blocks && pima->samplecount >= SPB)) /*@C05.short_only_at_end_of_data_or_when_the_decoder_could_not_read*/
__CPROVER_ensures ((__CPROVER_return_value < vin_len && !g_decode_failed) ==> (g_zero_filled && g_zero_from == (size_t) __CPROVER_return_value * 2
	&& (g_zero >= g_zero_from ==> ((char *) ptr) [g_zero] == 0))) /*@C05.rest_of_the_region_is_zero_filled*/
;

void h_ima_read_block (void)
{	SF_PRIVATE *psf ; IMA_ADPCM_PRIVATE *pima ; short *ptr ; int len ;
#ifndef LAYOUT_MS
	void *keep_c [] = { (void *) decode_block_c } ; (void) keep_c ;
#endif
	{ int a [4] ; size_t z ; short *p ; vin_len = a [0] ; vin_sc = a [1] ; vin_bc = a [2] ; vin_blocks = a [3] ; g_zero = z ; g_ptr = p ; }
	g_decode_calls = 0 ; g_zero_filled = 0 ; g_decode_failed = 0 ;
	int r = (int) ima_read_block (psf, pima, ptr, len) ;
	REACH (r == vin_len && g_decode_calls >= 2, "request spans several blocks") ;
	REACH (r < vin_len && r > 0, "data ends inside the request") ;
	CANARY () ;
}
