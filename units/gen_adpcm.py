"""C20: ADPCM block decoders against reference algorithms written from the specifications (spec/ima_spec.h)."""


def units():
    U = []
    base = {"props": ["C20"], "harness": "ima_step.harness.c", "dfcc": False, "timeout": 600,
            "trusted": ["spec/ima_spec.h: the IMA reference step, tables written from the standard",
                        "later iterations of the decode loop execute the same statements as the two iterations compared here"]}
    U.append(dict(base, name="ima.tables", entry="h_ima_tables", defines=["-DTABLES"], function="ima_adpcm.c:ima_step_size, ima_indx_adjust, clamp_ima_step_index",
                  cbmc_flags=["--unwind", "90"], kind="proof(full domain, static tables)"))
    for ch in (1, 2):
        U.append(dict(base, name="ima.wav_decode_step.ch%d" % ch, entry="h_ima_wav", defines=["-DLAYOUT_WAV", "-DCH=%d" % ch],
                      function="ima_adpcm.c:wavlike_ima_decode_block", cbmc_flags=["--unwind", "20"],
                      kind="proof(full domain of predictor x step index x code, first two steps per channel; channels=%d)" % ch))
        U.append(dict(base, name="ima.aiff_decode_step.ch%d" % ch, entry="h_ima_aiff", defines=["-DLAYOUT_AIFF", "-DCH=%d" % ch],
                      function="ima_adpcm.c:aiff_ima_decode_block", cbmc_flags=["--unwind", "40"],
                      kind="proof(full domain of predictor x step index x code, first two steps per channel; channels=%d)" % ch))
    for nm, entry, be in (("float32_write", "h_f32_write", "kissat"), ("float32_read", "h_f32_read", "kissat")):
        U.append({"name": "ieee." + nm, "props": ["C20"], "harness": "ieee_ser.harness.c", "entry": entry, "dfcc": False, "backend": be,
                  "function": "float32.c:float32_le_%s, float32_be_%s" % (nm.split("_")[1], nm.split("_")[1]), "timeout": 1200, "self_replay": True, "inputs": ["nd"], "replay_link": "all", "replay_exclude": [nm.split("_")[0] + ".c"],
                  "kind": "proof(full domain: every normal single precision value)",
                  "trusted": ["E1 models of frexp (normal doubles) and pow (2.0, small integer), written on the IEEE bit pattern"]})
    for nm, entry in (("double64_write", "h_f64_write"), ("double64_read", "h_f64_read")):
        U.append({"name": "ieee." + nm, "props": ["C20"], "harness": "ieee_ser64.harness.c", "entry": entry, "dfcc": False, "backend": "kissat",
                  "function": "double64.c:double64_le_%s, double64_be_%s" % (nm.split("_")[1], nm.split("_")[1]), "timeout": 1200, "self_replay": True, "inputs": ["nd"], "replay_link": "all", "replay_exclude": [nm.split("_")[0] + ".c"],
                  "cbmc_flags": ["--unwind", "10"], "kind": "proof(full domain: every normal double precision value)",
                  "trusted": ["E1 models of frexp (normal doubles), pow (2.0, small integer), fmod (x, 1.0), written on the IEEE definitions"]})
    for lay, fn in (("WAV", "wavlike_ima_seek"), ("AIFF", "aiff_ima_seek")):
        for ch in (1, 2):
            U.append({"name": "ima.%s.ch%d" % (fn, ch), "props": ["C06"], "harness": "ima_seek.harness.c", "entry": "h_ima_seek", "enforce": fn, "replace": ["psf_fseek"],
                      "function": "ima_adpcm.c:" + fn, "defines": ["-DLAYOUT_%s" % lay, "-DCH=%d" % ch], "timeout": 1200, "backend": "kissat",
                      "kind": "enumerated(block geometry of the %s layout, channels=%d)" % (lay, ch),
                      "trusted": ["decode_block_c: effect of the block decoders on blockcount/samplecount and the file position (frame contract, not enforced here)",
                                  "psf_fseek succeeds (failed repositioning is not reported by these functions: see not_decided)"]})
    return U


NOT_DECIDED = {
    "C06": ["IMA seek: a failing psf_fseek inside the codec seek is ignored by the code (return value unchecked); the units assume repositioning succeeds",
            "MS ADPCM, PAF24, SDS, ALAC, DWVW, GSM610 seek functions"],
    "C20": ["Microsoft ADPCM block decoder (published definitions disagree on truncating division vs arithmetic shift; no single reference)",
            "subnormal values and zero sign through the portable IEEE-754 serialisers (the property speaks of normal values)",
            "OKI/VOX codec (excluded by the property text)"],
}
ASSUMPTIONS = {}
