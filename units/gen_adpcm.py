"""C20: ADPCM block decoders against reference algorithms written from the specifications (spec/ima_spec.h)."""


def units():
    U = []
    base = {"props": ["C20"], "harness": "ima_step.harness.c", "dfcc": False, "timeout": 600,
            "trusted": ["spec/ima_spec.h: the IMA reference step, tables written from the standard",
                        "later iterations of the decode loop execute the same statements as the two iterations compared here"]}
    U.append(dict(base, name="ima.tables", entry="h_ima_tables", defines=["-DTABLES"], function="ima_adpcm.c:ima_step_size, ima_indx_adjust, clamp_ima_step_index",
                  cbmc_flags=["--unwind", "90"], kind="proof(full domain, static tables)"))
    for ch in (1, 2):
        U.append(dict(base, name="ima.wav_decode_step.ch%d" % ch, entry="h_ima_wav", defines=["-DLAYOUT_WAV", "-DCH=%d" % ch],
                      function="ima_adpcm.c:wavlike_ima_decode_block", cbmc_flags=["--unwind", "20"],
                      kind="proof(full domain of predictor x step index x code, first two steps per channel; channels=%d)" % ch))
        U.append(dict(base, name="ima.aiff_decode_step.ch%d" % ch, entry="h_ima_aiff", defines=["-DLAYOUT_AIFF", "-DCH=%d" % ch],
                      function="ima_adpcm.c:aiff_ima_decode_block", cbmc_flags=["--unwind", "40"],
                      kind="proof(full domain of predictor x step index x code, first two steps per channel; channels=%d)" % ch))
    for ch in (1, 2):
        U.append({"name": "ima.ima_read_block.ch%d" % ch, "props": ["C05", "C15", "C06"], "harness": "ima_read.harness.c", "entry": "h_ima_read_block", "enforce": "ima_read_block",
                  "function": "ima_adpcm.c:ima_read_block", "defines": ["-DCH=%d" % ch], "timeout": 900, "backend": "kissat", "cbmc_flags": ["--object-bits", "9"],
                  "loops": {"ima_read_block": [{"loop_id": 0, "assigns_locals": True,
                            "assigns": "pima->blockcount, pima->samplecount, g_decode_calls, g_decode_failed, g_zero_filled, g_zero_from, psf->error, __CPROVER_object_whole (ptr), __CPROVER_object_whole (pima->samples)",
                            "invariants": ("0 <= indx && indx <= len && indx % CHV == 0 && total == indx && 0 <= pima->samplecount && pima->samplecount <= 9 && 0 <= pima->blockcount && pima->blockcount <= (1 << 24) "
                                           "&& 0 <= g_decode_calls && g_decode_calls <= (1 << 22) && g_zero_filled == 0 && g_decode_failed == 0 "
                                           "&& (long) indx == ((long) g_decode_calls * 9 + pima->samplecount - vin_sc) * CHV").replace("CHV", str(ch)),
                            "decreases": "2 * (len - indx) + (pima->samplecount >= 9 ? 1 : 0)"}]},
                  "kind": "enumerated(samples per block 9, channels=%d)" % ch,
                  "trusted": ["decode_block_c: effect of the block decoders on the reader state (frame contract)", "E1 memcpy / memset models for symbolic lengths (ranges asserted)"]})
    for ch in (1, 2):
        U.append({"name": "msadpcm.msadpcm_read_block.ch%d" % ch, "props": ["C05", "C15", "C06"], "harness": "ima_read.harness.c", "entry": "h_ima_read_block", "enforce": "msadpcm_read_block", "replace": ["msadpcm_decode_block"],
                  "function": "ms_adpcm.c:msadpcm_read_block", "defines": ["-DCH=%d" % ch, "-DLAYOUT_MS"], "timeout": 900, "backend": "kissat", "cbmc_flags": ["--object-bits", "9"],
                  "loops": {"msadpcm_read_block": [{"loop_id": 0, "assigns_locals": True,
                            "assigns": "pms->blockcount, pms->samplecount, g_decode_calls, g_decode_failed, g_zero_filled, g_zero_from, psf->error, __CPROVER_object_whole (ptr), __CPROVER_object_whole (pms->samples)",
                            "invariants": ("0 <= indx && indx <= len && indx % CHV == 0 && total == indx && 0 <= pms->samplecount && pms->samplecount <= 9 && 0 <= pms->blockcount && pms->blockcount <= (1 << 24) "
                                           "&& 0 <= g_decode_calls && g_decode_calls <= (1 << 22) && g_zero_filled == 0 && g_decode_failed == 0 "
                                           "&& (long) indx == ((long) g_decode_calls * 9 + pms->samplecount - vin_sc) * CHV").replace("CHV", str(ch)),
                            "decreases": "2 * (len - indx) + (pms->samplecount >= 9 ? 1 : 0)"}]},
                  "kind": "enumerated(samples per block 9, channels=%d)" % ch,
                  "trusted": ["decode_block_c: effect of the block decoders on the reader state (frame contract)", "E1 memcpy / memset models for symbolic lengths (ranges asserted)"]})
    U.append({"name": "gsm610.gsm610_read_block", "props": ["C05", "C15", "C06"], "harness": "ima_read.harness.c", "entry": "h_ima_read_block", "enforce": "gsm610_read_block",
              "function": "gsm610.c:gsm610_read_block", "defines": ["-DCH=1", "-DLAYOUT_GSM"], "timeout": 900, "backend": "kissat", "cbmc_flags": ["--object-bits", "9"],
              "loops": {"gsm610_read_block": [{"loop_id": 0, "assigns_locals": True,
                        "assigns": "pgsm610->blockcount, pgsm610->samplecount, g_decode_calls, g_decode_failed, g_zero_filled, g_zero_from, psf->error, __CPROVER_object_whole (ptr), __CPROVER_object_upto ((char *) pgsm610->samples, 640)",
                        "invariants": "0 <= indx && indx <= len && total == indx && 0 <= pgsm610->samplecount && pgsm610->samplecount <= 9 && 0 <= pgsm610->blockcount && pgsm610->blockcount <= (1 << 24) "
                                      "&& pgsm610->samplesperblock == 9 && pgsm610->blocks == vin_blocks "
                                      "&& 0 <= g_decode_calls && g_decode_calls <= (1 << 22) && g_zero_filled == 0 && g_decode_failed == 0 "
                                      "&& (long) indx == (long) g_decode_calls * 9 + pgsm610->samplecount - vin_sc",
                        "decreases": "2 * (len - indx) + (pgsm610->samplecount >= 9 ? 1 : 0)"}]},
              "kind": "enumerated(samples per block 9; mono)",
              "trusted": ["decode_block_c: effect of the block decoders on the reader state (frame contract)", "E1 memcpy / memset models for symbolic lengths (ranges asserted)"]})
    for lay, fn, cfile in (("IMA", "ima_write_block", "ima_adpcm.c"), ("MS", "msadpcm_write_block", "ms_adpcm.c")):
        for ch in (1, 2):
            pv = "pima" if lay == "IMA" else "pms"
            U.append({"name": "%s.%s.ch%d" % ("ima" if lay == "IMA" else "msadpcm", fn, ch), "props": ["C07", "C05", "C01"], "harness": "ima_write.harness.c", "entry": "h_ima_write_block",
                      "enforce": fn, "replace": ([] if lay == "IMA" else ["msadpcm_encode_block"]), "function": "%s:%s" % (cfile, fn),
                      "defines": ["-DCH=%d" % ch] + (["-DLAYOUT_MS"] if lay == "MS" else []), "timeout": 900, "backend": "kissat", "cbmc_flags": ["--object-bits", "9"],
                      "loops": {fn: [{"loop_id": 0, "assigns_locals": True,
                                "assigns": "PV->samplecount, PV->blockcount, g_enc_calls, g_consumed, psf->error, __CPROVER_object_whole (PV->samples)".replace("PV", pv),
                                "invariants": ("0 <= indx && indx <= len && indx % CHV == 0 && total == indx && g_consumed == indx && 0 <= PV->samplecount && PV->samplecount < 9 "
                                               "&& 0 <= g_enc_calls && g_enc_calls <= (1 << 22) && (long) PV->samplecount * CHV == (long) vin_sc * CHV + indx - (long) g_enc_calls * 9 * CHV").replace("CHV", str(ch)).replace("PV", pv),
                                "decreases": "len - indx"}]},
                      "kind": "enumerated(samples per block 9, channels=%d)" % ch,
                      "trusted": ["encode_block_c: the block encoder consumes the full block and resets the fill level (frame contract; the encoder itself has no unit)",
                                  "E1 memcpy model for symbolic lengths (ranges and placement asserted)"]})
    U.append({"name": "gsm610.gsm610_write_block", "props": ["C07", "C05", "C01"], "harness": "ima_write.harness.c", "entry": "h_ima_write_block", "enforce": "gsm610_write_block",
              "function": "gsm610.c:gsm610_write_block", "defines": ["-DCH=1", "-DLAYOUT_GSM"], "timeout": 900, "backend": "kissat", "cbmc_flags": ["--object-bits", "9"],
              "loops": {"gsm610_write_block": [{"loop_id": 0, "assigns_locals": True,
                        "assigns": "pgsm610->samplecount, pgsm610->blockcount, g_enc_calls, g_consumed, psf->error, __CPROVER_object_upto ((char *) pgsm610->samples, 640)",
                        "invariants": "0 <= indx && indx <= len && total == indx && g_consumed == indx && 0 <= pgsm610->samplecount && pgsm610->samplecount < 9 && pgsm610->samplesperblock == 9 "
                                      "&& 0 <= g_enc_calls && g_enc_calls <= (1 << 22) && (long) pgsm610->samplecount == (long) vin_sc + indx - (long) g_enc_calls * 9",
                        "decreases": "len - indx"}]},
              "kind": "enumerated(samples per block 9; mono)",
              "trusted": ["encode_block_c: the block encoder consumes the full block and resets the fill level (frame contract)", "E1 memcpy model for symbolic lengths (ranges and placement asserted)"]})
    for lay, fn, chs in (("PAF", "paf24_seek", (1, 2)), ("SDS", "sds_seek", (1,))):
        for ch in chs:
            U.append({"name": "%s.%s.ch%d" % (lay.lower(), fn, ch), "props": ["C06", "C08"], "harness": "blockseek.harness.c", "entry": "h_blockseek", "enforce": fn,
                      "function": "%s.c:%s" % ("paf" if lay == "PAF" else "sds", fn), "defines": ["-DLAYOUT_%s" % lay, "-DCH=%d" % ch], "timeout": 1200, "backend": "kissat",
                      "replace": ["psf_fseek"] + (["paf24_read_block", "paf24_write_block"] if lay == "PAF" else []),
                      "kind": "enumerated(block geometry of %s, channels=%d; read-mode seek)" % (lay, ch),
                      "trusted": ["block reader / writer frame contracts (effect on counters and file position; their data path has no unit)"]})
    for nm, entry, be in (("float32_write", "h_f32_write", "kissat"), ("float32_read", "h_f32_read", "kissat")):
        U.append({"name": "ieee." + nm, "props": ["C20"], "harness": "ieee_ser.harness.c", "entry": entry, "dfcc": False, "backend": be,
                  "function": "float32.c:float32_le_%s, float32_be_%s" % (nm.split("_")[1], nm.split("_")[1]), "timeout": 1200, "self_replay": True, "inputs": ["nd"], "replay_link": "all", "replay_exclude": [nm.split("_")[0] + ".c"],
                  "kind": "proof(full domain: every normal single precision value)",
                  "trusted": ["E1 models of frexp (normal doubles) and pow (2.0, small integer), written on the IEEE bit pattern"]})
    for nm, entry in (("double64_write", "h_f64_write"), ("double64_read", "h_f64_read")):
        U.append({"name": "ieee." + nm, "props": ["C20"], "harness": "ieee_ser64.harness.c", "entry": entry, "dfcc": False, "backend": "kissat",
                  "function": "double64.c:double64_le_%s, double64_be_%s" % (nm.split("_")[1], nm.split("_")[1]), "timeout": 1200, "self_replay": True, "inputs": ["nd"], "replay_link": "all", "replay_exclude": [nm.split("_")[0] + ".c"],
                  "cbmc_flags": ["--unwind", "10"], "kind": "proof(full domain: every normal double precision value)",
                  "trusted": ["E1 models of frexp (normal doubles), pow (2.0, small integer), fmod (x, 1.0), written on the IEEE definitions"]})
    for lay, fn in (("WAV", "wavlike_ima_seek"), ("AIFF", "aiff_ima_seek"), ("MS", "msadpcm_seek")):	# gsm610_seek: handles are opened unseekable (gsm610_init), the function is unreachable through sf_seek; no unit
        for ch in ((1,) if lay == "GSM" else (1, 2)):
            U.append({"name": "%s.%s.ch%d" % ({"MS": "msadpcm", "GSM": "gsm610"}.get(lay, "ima"), fn, ch), "props": ["C06"], "harness": "ima_seek.harness.c", "entry": "h_ima_seek", "enforce": fn,
                      "replace": ["psf_fseek"] + (["msadpcm_decode_block"] if lay == "MS" else []) + (["gsm_init", "gsm_option"] if lay == "GSM" else []),
                      "function": {"MS": "ms_adpcm.c:", "GSM": "gsm610.c:"}.get(lay, "ima_adpcm.c:") + fn, "defines": ["-DLAYOUT_%s" % lay, "-DCH=%d" % ch], "timeout": 1200, "backend": "kissat",
                      "kind": "enumerated(block geometry of the %s layout, channels=%d)" % (lay, ch),
                      "trusted": ["decode_block_c: effect of the block decoders on blockcount/samplecount and the file position (frame contract, not enforced here)",
                                  "psf_fseek succeeds (failed repositioning is not reported by these functions: see not_decided)"]})
    return U


NOT_DECIDED = {
    "C06": ["IMA seek: a failing psf_fseek inside the codec seek is ignored by the code (return value unchecked); the units assume repositioning succeeds",
            "PAF24 / SDS seeks: write-mode seeks, and targets beyond 2^24 frames (the int product block * blocksize overflows for files above about 2 GiB)", "ALAC, DWVW seek functions"],
    "C20": ["Microsoft ADPCM block decoder (published definitions disagree on truncating division vs arithmetic shift; no single reference)",
            "subnormal values and zero sign through the portable IEEE-754 serialisers (the property speaks of normal values)",
            "OKI/VOX codec (excluded by the property text)"],
}
ASSUMPTIONS = {}


def _alac_units():
    U = []
    FPBV = 8
    OUTER = ("0 <= total && total <= (1 << 24) && 0 <= len && total + len == __CPROVER_loop_entry (len) && total %% CH == 0 && len %% CH == 0 "
             "&& 0 <= g_enc_calls && g_enc_calls <= (1 << 20) && plac->partial_block_frames < FPBV "
             "&& (long) plac->partial_block_frames * CH == (long) vin_p0 * CH + total - (long) g_enc_calls * (FPBV * CH) "
             "&& ptr == (const %(T)s *) vin_ptr + total"
             "%(ITEM)s")
    ITEM = (" && ((g_n < total && (((long) vin_p0 * CH + g_n) / (FPBV * CH)) == g_enc_calls) ==> plac->buffer [((long) vin_p0 * CH + g_n) %% (FPBV * CH)] == g_val)")
    INNER = ("0 <= k && k <= writecount && ((0 <= g_n - total && g_n - total < k) ==> iptr [g_n - total] == g_val)" + ITEM)
    for fn, T, sz, kind in (("alac_write_i", "int", 4, "loop"), ("alac_write_s", "short", 2, "loop"), ("alac_write_f", "float", 4, "convert"), ("alac_write_d", "double", 8, "convert")):
        for ch in (1, 2, 3):
            defs = ["-DFN=" + fn, "-DT=" + T, "-DCH=%d" % ch, "-DFPB=%d" % FPBV]
            repl = ["alac_encode_block"]
            if kind == "loop":
                defs.append("-DITEM_VALUE(x)=" + ("(x)" if T == "int" else "((int) (((unsigned) (int) (x)) << 16))"))
                item = ITEM
            else:
                c = "psf_%s2i" % T[0]
                defs += ["-DCONVERT_FN=%s_array" % c, "-DCONVERT_CLIP_FN=%s_clip_array" % c]
                repl += [c + "_array", c + "_clip_array"]
                item = ""
            inv = (OUTER % dict(SZ=sz, ITEM=item, T=T)).replace("CH", str(ch)).replace("FPBV", str(FPBV)).replace("%%", "%")
            loops = [{"loop_id": 0, "assigns_locals": True, "assigns": "plac->partial_block_frames, plac->frames_this_block, g_enc_calls, __CPROVER_object_from (plac->buffer)", "invariants": inv, "decreases": "len"}]
            if kind == "loop":
                loops = [{"loop_id": 0, "assigns_locals": True, "assigns": "__CPROVER_object_from (plac->buffer)",
                          "invariants": INNER.replace("CH", str(ch)).replace("FPBV", str(FPBV)).replace("%%", "%"), "decreases": "writecount - k"},
                         {"loop_id": 1, "assigns_locals": True, "assigns": "plac->partial_block_frames, plac->frames_this_block, g_enc_calls, __CPROVER_object_from (plac->buffer)", "invariants": inv, "decreases": "len"}]
            u = {"name": "alac.%s.ch%d" % (fn, ch), "props": ["C01", "C07", "C05"], "harness": "alac_write.harness.c", "entry": "h_alac_write", "enforce": fn,
                 "function": "alac.c:" + fn, "defines": defs, "replace": repl, "loops": {fn: loops}, "timeout": 1200, "backend": "kissat",
                 "cbmc_flags": ["--object-bits", "9"], "tier": "quick" if ch == 2 else "thorough",
                 "kind": "enumerated(channels=%d; block length %d frames)" % (ch, FPBV),
                 "trusted": ["alac_encode_block: consumes the full block, resets the fill level (frame contract; the encoder itself has no unit)"] +
                            (["psf_%s2i_array / _clip_array frame contract (values: conversion rules are outside this unit)" % T[0]] if kind == "convert" else [])}
            if kind == "convert":
                u["restrict_fp"] = ["%s.function_pointer_call.1/psf_%s2i_array,psf_%s2i_clip_array" % (fn, T[0], T[0])]
            U.append(u)
    return U


_units_without_alac = units


def units():
    # ALAC write glue: written (units/alac_write.harness.c), out of reach -- ALAC_PRIVATE embeds a 1 MiB byte buffer next to
    # the flexible staging array; every slice havoc on that object exhausts memory during propositional reduction (and
    # symbolic execution needs an unlimited stack).  Registered only with VERIF_WIP_ALAC=1.
    import os
    return _units_without_alac() + (_alac_units() if os.environ.get("VERIF_WIP_ALAC") else [])
