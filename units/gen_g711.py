"""C20 / C02: G.711 mu-law and A-law (src/ulaw.c, src/alaw.c).

 * kernel units (DFCC, inductive loop contracts): every *_array kernel applies one element
   function to each element (decode: table lookup, widening, scaling; encode: magnitude / 4
   (resp. / 16) -> table, sign bit), writes only its destination;
 * cross-type rule (C02): the int encoder agrees with the short encoder on the 16 most
   significant bits, the int decoder is the short decoder widened;
 * G.711 lemmas (plain harnesses, real kernels called on one symbolic element, SAT over the
   full domain): decode[c] equals the ITU-T G.711 expansion formula for all 256 codes;
   encode(decode(c)) == c for every code (negative zero maps to positive zero); and
   decode(encode(x)) is an output level adjacent to x for every 16-bit x (G.711 decides by
   thresholds, which at segment boundaries are not midpoints, so "nearest" in the strict sense
   is not what the Recommendation prescribes; see DESIGN corrections).
"""

HEAD = """#include "%(law)s.c"
#include "ghost.h"
#include "pcm_spec.h"

/* ITU-T G.711 expansion of an 8-bit code to the 16-bit linear scale */
#define G711_ULAW_EXPAND(c)	((((c) ^ 0xFF) & 0x80) ? (0x84 - ((((((c) ^ 0xFF) & 0x0F) << 3) + 0x84) << ((((c) ^ 0xFF) & 0x70) >> 4))) \\
								: ((((((c) ^ 0xFF) & 0x0F) << 3) + 0x84) << ((((c) ^ 0xFF) & 0x70) >> 4)) - 0x84)
#define ALAW_T(a)			((((a) & 0x70) >> 4) == 0 ? ((((a) & 0x0F) << 4) + 8) : ((((a) & 0x70) >> 4) == 1 ? ((((a) & 0x0F) << 4) + 0x108) \\
								: (((((a) & 0x0F) << 4) + 0x108) << ((((a) & 0x70) >> 4) - 1))))
#define G711_ALAW_EXPAND(c)	((((c) ^ 0x55) & 0x80) ? ALAW_T ((c) ^ 0x55) : - ALAW_T ((c) ^ 0x55))
"""

KERNEL = """
static void %(name)s (%(sig)s)
__CPROVER_requires (0 <= count && count <= 65536)
__CPROVER_requires (__CPROVER_is_fresh (%(src)s, (count > 0 ? count : 1) * sizeof (%(src_t)s)))
__CPROVER_requires (__CPROVER_is_fresh (%(dst)s, (count > 0 ? count : 1) * sizeof (%(dst_t)s)))
%(extra_req)s
__CPROVER_assigns (__CPROVER_object_whole (%(dst)s))
__CPROVER_ensures ((0 <= g_idx && g_idx < count) ==> (%(post)s)) /*@%(tag)s*/
;
void h_unit (void)
{	%(src_q)s%(src_t)s *a ; %(dst_t)s *b ; int count ;
%(decl)s
	GHOST_HAVOC () ;
	%(call)s ;
	CANARY () ;
}
"""

LAW = {"ulaw": dict(div=4, sh=18, size=8193, expand="G711_ULAW_EXPAND", maxidx=8192),
       "alaw": dict(div=16, sh=20, size=2049, expand="G711_ALAW_EXPAND", maxidx=2048)}
CT = {"s": "short", "i": "int", "f": "float", "d": "double"}


def enc_elem(law, x):
    """the library's quantiser for a short value x (element function of s2<law>_array)"""
    d = LAW[law]["div"]
    return "((%s) >= 0 ? %s_encode [(%s) / %d] : (0x7F & %s_encode [(%s) / -%d]))" % (x, law, x, d, law, x, d)


def kunit(law, name, sig, src, dst, src_t, dst_t, post, props, tag, extra_req="", decl="", callargs="", backend="minisat",
          drop=(), timeout=300, tier="quick", src_q=""):
    post_g = post.replace("K", "g_idx")
    d = dict(name=name, sig=sig, src=src, dst=dst, src_t=src_t, dst_t=dst_t, post=post_g, tag=tag, extra_req=extra_req,
             decl=decl, call="%s (%s)" % (name, callargs), src_q=src_q)
    h = HEAD % dict(law=law) + KERNEL % d
    return {"name": "%s.%s" % (law, name), "props": props, "harness_text": h, "template": "units/gen_g711.py", "entry": "h_unit",
            "enforce": name, "function": "%s.c:%s" % (law, name), "loop_headers": ["pcm_spec.h"],
            "loops": {name: [{"loop_id": 0, "assigns_locals": True, "assigns": "__CPROVER_object_whole (%s)" % dst,
                              "invariants": "0 <= i && i <= count && ((0 <= g_idx && g_idx < i) ==> (%s))" % post_g,
                              "decreases": "count - i"}]},
            "timeout": timeout, "tier": tier, "backend": backend, "drop_flags": list(drop)}


LEMMA = """
void h_unit (void)
{	unsigned char code [1], code2 [1], other [1] ; short lin [1], lin2 [1], olin [1], x [1] ;
	unsigned char c_nd, o_nd ; short x_nd ;
	/* L1: decode table == G.711 expansion, all 256 codes */
	code [0] = c_nd ;
	%(law)s2s_array (code, 1, lin) ;
	__CPROVER_assert (lin [0] == %(expand)s ((int) code [0]), "G.711 expansion formula") ; /*@C20.decode_matches_g711_expansion*/
	/* L2: encode after decode is the identity on codes (negative zero becomes positive zero) */
	s2%(law)s_array (lin, 1, code2) ;
	__CPROVER_assert (code2 [0] == code [0] || (lin [0] == 0 && %(negzero)s), "encode (decode (c)) == c") ; /*@C20.encode_after_decode_is_identity*/
	/* L3: decode after encode is a nearest output level, all 65536 inputs against all 256 levels */
	x [0] = x_nd ; other [0] = o_nd ;
	s2%(law)s_array (x, 1, code2) ;
	%(law)s2s_array (code2, 1, lin2) ;
	%(law)s2s_array (other, 1, olin) ;
	{	/* G.711 quantises by decision thresholds (at segment boundaries these are not the midpoints), so
		** the statement is adjacency: no output level lies strictly between x and decode (encode (x)) */
		int y = lin2 [0], o = olin [0], xv = x [0] ;
		int lo = xv < y ? xv : y, hi = xv < y ? y : xv ;
		__CPROVER_assert (!(lo < o && o < hi), "decode (encode (x)) is a level adjacent to x") ; /*@C20.decode_after_encode_is_adjacent_level*/
		} ;
	CANARY () ;
}
"""


def units():
    U = []
    for law in ("ulaw", "alaw"):
        P = LAW[law]
        dec = "%s_decode [(int) buffer [K]]" % law
        # decoders
        U.append(kunit(law, "%s2s_array" % law, "unsigned char *buffer, int count, short *ptr", "buffer", "ptr", "unsigned char", "short",
                       "ptr [K] == %s" % dec, ["C20", "C02"], "C20.decoder_is_table_lookup", callargs="a, count, b"))
        U.append(kunit(law, "%s2i_array" % law, "unsigned char *buffer, int count, int *ptr", "buffer", "ptr", "unsigned char", "int",
                       "ptr [K] == WIDEN ((int) %s, 16, 32)" % dec, ["C02", "C20"], "C02.int_read_is_short_read_widened", callargs="a, count, b"))
        for h in ("f", "d"):
            cq = "const " if (law == "ulaw" and h == "d") else ""
            U.append(kunit(law, "%s2%s_array" % (law, h), "%sunsigned char *buffer, int count, %s *ptr, %s normfact" % (cq, CT[h], CT[h]),
                           "buffer", "ptr", "unsigned char", CT[h], "ptr [K] == normfact * %s" % dec, ["C02"],
                           "C02.float_read_is_decoded_value_times_normfact", extra_req="__CPROVER_requires (normfact > 0 && normfact <= 1)",
                           decl="\t%s normfact ;" % CT[h], callargs="a, count, b, normfact", backend="kissat", timeout=3600, src_q=cq,
                           tier="thorough"))
            # quick tier: the same rule for one symbolic element (plain harness, cvc5); the loop unit above is thorough
            U.append({"name": "%s.%s2%s_array.elem" % (law, law, h), "props": ["C02"], "template": "units/gen_g711.py",
                      "harness_text": HEAD % dict(law=law) + """
void h_unit (void)
{	unsigned char buffer [1] ; %(T)s ptr [1] ; INPUT (%(T)s, normfact) ; INPUT (unsigned char, nd) ;
	buffer [0] = nd ;
	__CPROVER_assume (normfact > 0 && normfact <= 1) ;
	%(law)s2%(h)s_array (buffer, 1, ptr, normfact) ;
	__CPROVER_assert (ptr [0] == normfact * %(law)s_decode [(int) buffer [0]], "float read is the decoded value times normfact") ; /*@C02.float_read_is_decoded_value_times_normfact*/
	CANARY () ;
}
""" % dict(law=law, h=h, T=CT[h]), "entry": "h_unit", "dfcc": False, "function": "%s.c:%s2%s_array" % (law, law, h),
                      "self_replay": True, "inputs": ["nd", "normfact"], "replay_link": "all", "replay_exclude": [law + ".c"],
                      "backend": "cvc5", "cbmc_flags": ["--unwind", "2"], "drop_flags": ["--slice-formula"], "timeout": 300, "tier": "quick"})
        # encoders
        U.append(kunit(law, "s2%s_array" % law, "const short *ptr, int count, unsigned char *buffer", "ptr", "buffer", "short", "unsigned char",
                       "buffer [K] == %s" % enc_elem(law, "(int) ptr [K]"), ["C20", "C02"], "C20.encoder_element_function",
                       callargs="a, count, b", src_q="const "))
        rule_i = "buffer [K] == %s" % enc_elem(law, "NARROW (ptr [K], 32, 16)")
        # (a) non-negative samples and samples whose 16 low bits are zero: exactly the short path
        U.append(kunit(law, "i2%s_array" % law, "const int *ptr, int count, unsigned char *buffer", "ptr", "buffer", "int", "unsigned char",
                       "(ptr [K] >= 0 || ((ptr [K] & 0xFFFF) == 0 && ptr [K] != (-2147483647 - 1))) ==> (%s)" % rule_i, ["C02", "C20"],
                       "C02.int_write_agrees_with_short_write", callargs="a, count, b", src_q="const ", backend="kissat", timeout=900))
        # (b) every sample: the code depends on the 16 most significant bits only (known finding KF5 on the pinned tree)
        u = kunit(law, "i2%s_array" % law, "const int *ptr, int count, unsigned char *buffer", "ptr", "buffer", "int", "unsigned char",
                  rule_i, ["C02"], "C02.int_write_depends_on_the_16_msb_only", callargs="a, count, b", src_q="const ",
                  backend="kissat", timeout=900)
        u["name"] += ".msb16"
        U.append(u)
        # INT_MIN (the one value the loop-contract unit above leaves out: the loop-contract parser of goto-instrument
        # evaluates the clause differently there, measured) is settled by a plain lemma over the two real kernels
        U.append({"name": "%s.i2%s_array.intmin" % (law, law), "props": ["C02"], "template": "units/gen_g711.py",
                  "harness_text": HEAD % dict(law=law) + """
void h_unit (void)
{	int x [1] = { (-2147483647 - 1) } ; short s [1] = { -32768 } ; unsigned char a [1], b [1] ;
	i2%(law)s_array (x, 1, a) ; s2%(law)s_array (s, 1, b) ;
	__CPROVER_assert (a [0] == b [0], "INT_MIN written as int == -32768 written as short") ; /*@C02.int_min_agrees_with_short_min*/
	CANARY () ;
}
""" % dict(law=law), "entry": "h_unit", "dfcc": False, "function": "%s.c:i2%s_array" % (law, law), "cbmc_flags": ["--unwind", "2"],
                  "timeout": 300, "tier": "quick"})
        LEM = LEMMA % dict(law=law, expand=P["expand"], negzero=("code [0] == 0x7F" if law == "ulaw" else "code [0] == 0x55 || code [0] == 0xD5"))
        U.append({"name": "%s.g711_lemmas" % law, "props": ["C20"], "harness_text": HEAD % dict(law=law) + LEM,
                  "template": "units/gen_g711.py", "entry": "h_unit", "dfcc": False, "function": "%s.c:%s2s_array,s2%s_array + tables" % (law, law, law),
                  "cbmc_flags": ["--unwind", "2"], "timeout": 900, "tier": "quick",
                  "note": "full domain (256 codes x 65536 inputs) symbolically; loops of the real kernels unwound for count == 1 (complete)"})
    return U


NOT_DECIDED = {
    "C20": [],
}
