/* C17 / C12: psf_strlcpy_crlf (src/common.c), the line-ending normaliser the broadcast / cart text paths run over the
** caller's text.  The contract its callers assume (units/metadata.harness.c: reads only [src, src + srcmax), writes
** only [dest, dest + destmax), terminates dest) is checked on the REAL function with exactly sized buffers.
** Bounded stand-in: buffer sizes enumerated (source 1..4 bytes, destination 3 / 8 bytes, exactly sized arrays; loop unwound completely); contents symbolic.
** Also the documented normalisation: lone CR, lone LF and LF CR all become CR LF, other characters are copied.
*/
#include "env_pre.h"
#include "common.c"
#include "ghost.h"
#include "env_stubs.h"

#ifndef NSRC
#define NSRC 2
#endif
#ifndef NDST
#define NDST 8
#endif
void h_strlcpy_crlf (void)
{	char src [NSRC], dest [NDST] ; char nd [NSRC] ;
	for (int k = 0 ; k < NSRC ; k++) src [k] = nd [k] ;
	psf_strlcpy_crlf (dest, src, NDST, NSRC) ;		/* bounds checks: every read of src inside NSRC bytes, every write inside NDST bytes */
	_Bool terminated = 0 ;
	for (int k = 0 ; k < NDST ; k++) if (dest [k] == 0) terminated = 1 ;
	__CPROVER_assert (terminated, "destination is terminated within destmax") ; /*@C12.normalised_text_is_terminated*/ /*@C17.normalised_text_is_terminated*/
	if (NDST >= 4 && src [0] != '\r' && src [0] != '\n')
		__CPROVER_assert (dest [0] == src [0], "an ordinary character is copied") ; /*@C12.ordinary_characters_are_copied*/
	if (NDST >= 4 && (src [0] == '\r' || src [0] == '\n'))
		__CPROVER_assert (dest [0] == '\r' && dest [1] == '\n', "every line ending becomes CR LF") ; /*@C12.line_endings_become_crlf*/
	CANARY () ;
}
