"""C04 / C11 / C10: header write/read pair lemmas through the real container code (plain harnesses:
real X_write_header -> memory-backed virtual file -> real X_read_header)."""

AU_ENC = [("PCM_16", "SF_FORMAT_PCM_16", 2), ("PCM_24", "SF_FORMAT_PCM_24", 3), ("PCM_32", "SF_FORMAT_PCM_32", 4), ("PCM_S8", "SF_FORMAT_PCM_S8", 1),
          ("FLOAT", "SF_FORMAT_FLOAT", 4), ("DOUBLE", "SF_FORMAT_DOUBLE", 8), ("ULAW", "SF_FORMAT_ULAW", 1), ("ALAW", "SF_FORMAT_ALAW", 1)]


def units():
    U = []
    for nm, sub, bw in AU_ENC:
        for ch in (1, 2, 3):
            quick = (nm, ch) in (("PCM_16", 2), ("PCM_24", 1), ("FLOAT", 2), ("ULAW", 1), ("DOUBLE", 3))
            U.append({"name": "hdr.au.%s.ch%d" % (nm, ch), "props": ["C04", "C11", "C10"], "harness": "hdr_au.harness.c", "entry": "h_au_pair",
                      "dfcc": False, "function": "au.c:au_write_header + au_read_header (with common.c psf_binheader_writef/readf, file_io.c)",
                      "link_sources": ["common.c", "file_io.c"], "defines": ["-DCH=%d" % ch, "-DSUBFORMAT=%s" % sub, "-DBYTEW=%d" % bw],
                      "cbmc_flags": ["--unwind", "40", "--object-bits", "10"],
                      # the parse log is not part of the lemma; growth of the 256-byte header cache must not be needed
                      # (an assert-false body proves it is never reached)
                      "pre_gi_flags": ["--remove-function-body", "psf_log_printf", "--remove-function-body", "psf_bump_header_allocation",
                                       "--generate-function-body", "psf_bump_header_allocation",
                                       "--generate-function-body-options", "assert-false"], "timeout": 900, "tier": "quick" if quick else "thorough",
                      "kind": "proof (pair lemma; channels and encoding enumerated; N, sample rate, byte order symbolic; loops over literal format strings unwound completely)",
                      "trusted": ["harness virtual-I/O callbacks stand for the caller's SF_VIRTUAL_IO (header region stored, audio region a length)",
                                  "psf_log_printf compiled out in the container translation unit"]})
    # C10: open-for-write acceptance per container (real sf_format_check + real X_open + real header writer)
    COMMON_STUBS = "STUB1 (pcm_init) STUB1 (ulaw_init) STUB1 (alaw_init) STUB1 (float32_init) STUB1 (double64_init) "
    OPENS = {
        "aiff": ("aiff.c", "aiff_open", "SF_FORMAT_AIFF", COMMON_STUBS + "STUB2 (dwvw_init, int) STUB1 (gsm610_init) STUB3 (aiff_ima_init)"),
        "au": ("au.c", "au_open", "SF_FORMAT_AU", COMMON_STUBS + "STUB1 (g72x_init)"),
    }
    for cname, (cfile, openfn, cfmt, stubs) in OPENS.items():
        for ch in (1, 2, 3):
            U.append({"name": "open.%s.ch%d" % (cname, ch), "props": ["C10"], "harness": "hdr_open.harness.c", "entry": "h_open_write",
                      "dfcc": False, "function": "%s:%s (write mode) + sndfile.c:sf_format_check" % (cfile, openfn),
                      "link_sources": ["common.c", "file_io.c", "sndfile.c"],
                      "defines": ["-DCH=%d" % ch, "-DCONTAINER_FILE=\"%s\"" % cfile, "-DOPEN_FN=%s" % openfn, "-DCONTAINER_FMT=%s" % cfmt,
                                  "-DCODEC_STUBS=%s" % stubs],
                      "cbmc_flags": ["--unwind", "80", "--unwindset", "v_write.0:1030", "--object-bits", "12"], "timeout": 1200, "tier": "quick" if ch in (1, 2) else "thorough",
                      "pre_gi_flags": ["--remove-function-body", "psf_log_printf"],
                      "kind": "proof (encoding and byte order symbolic over everything the real sf_format_check admits; channels enumerated)",
                      "trusted": ["codec initialisers replaced by call-counting stand-ins", "harness virtual-I/O callbacks"]})
    return U


NOT_DECIDED = {
    "C04": ["containers other than AU have no pair lemma yet; G72x encodings in AU (frame count comes from the codec initialiser)"],
    "C11": ["containers other than AU; block codecs with a partly filled block"],
    "C10": ["agreement of sf_format_check with the header writers beyond AU; enumeration commands"],
}
