"""C04 / C11 / C10: header write/read pair lemmas through the real container code (plain harnesses:
real X_write_header -> memory-backed virtual file -> real X_read_header)."""

AU_ENC = [("PCM_16", "SF_FORMAT_PCM_16", 2), ("PCM_24", "SF_FORMAT_PCM_24", 3), ("PCM_32", "SF_FORMAT_PCM_32", 4), ("PCM_S8", "SF_FORMAT_PCM_S8", 1),
          ("FLOAT", "SF_FORMAT_FLOAT", 4), ("DOUBLE", "SF_FORMAT_DOUBLE", 8), ("ULAW", "SF_FORMAT_ULAW", 1), ("ALAW", "SF_FORMAT_ALAW", 1)]


def units():
    import os
    U = []
    for nm, sub, bw in AU_ENC:
        for ch in (1, 2, 3):
            quick = (nm, ch) in (("PCM_16", 2), ("PCM_24", 1), ("FLOAT", 2), ("ULAW", 1), ("DOUBLE", 3))
            U.append({"name": "hdr.au.%s.ch%d" % (nm, ch), "props": ["C04", "C11", "C10"], "harness": "hdr_au.harness.c", "entry": "h_au_pair",
                      "dfcc": False, "function": "au.c:au_write_header + au_read_header (with common.c psf_binheader_writef/readf, file_io.c)",
                      "link_sources": ["common.c", "file_io.c"], "defines": ["-DCH=%d" % ch, "-DSUBFORMAT=%s" % sub, "-DBYTEW=%d" % bw],
                      "cbmc_flags": ["--unwind", "40", "--object-bits", "10"],
                      # the parse log is not part of the lemma; growth of the 256-byte header cache must not be needed
                      # (an assert-false body proves it is never reached)
                      "pre_gi_flags": ["--remove-function-body", "psf_log_printf", "--remove-function-body", "psf_bump_header_allocation",
                                       "--generate-function-body", "psf_bump_header_allocation",
                                       "--generate-function-body-options", "assert-false"], "timeout": 900, "tier": "quick" if quick else "thorough",
                      "kind": "proof (pair lemma; channels and encoding enumerated; N, sample rate, byte order symbolic; loops over literal format strings unwound completely)",
                      "trusted": ["harness virtual-I/O callbacks stand for the caller's SF_VIRTUAL_IO (header region stored, audio region a length)",
                                  "psf_log_printf compiled out in the container translation unit"]})
    MAT5_ENC = [("PCM_U8", "SF_FORMAT_PCM_U8", 1), ("PCM_16", "SF_FORMAT_PCM_16", 2), ("PCM_32", "SF_FORMAT_PCM_32", 4), ("FLOAT", "SF_FORMAT_FLOAT", 4), ("DOUBLE", "SF_FORMAT_DOUBLE", 8)]
    # MAT5 pair lemma: written, but symbolic execution of the two header passes plus the parser does not finish within
    # 30 minutes (1024-cell field sensitivity needed for the 512-byte store); not registered unless VERIF_WIP_MAT5 is set
    for nm, sub, bw in (MAT5_ENC if os.environ.get("VERIF_WIP_MAT5") else []):
      for en in ("LITTLE", "BIG"):
        for ch in (1, 2, 3):
            quick = (nm, ch, en) in (("PCM_16", 2, "LITTLE"), ("DOUBLE", 1, "BIG"), ("FLOAT", 3, "LITTLE"))
            U.append({"name": "hdr.mat5.%s.%s.ch%d" % (nm, en.lower(), ch), "props": ["C04", "C11", "C10"], "harness": "hdr_mat5.harness.c", "entry": "h_mat5_pair",
                      "dfcc": False, "function": "mat5.c:mat5_write_header + mat5_read_header (with common.c psf_binheader_writef/readf, file_io.c)",
                      "link_sources": ["common.c", "file_io.c"], "defines": ["-DCH=%d" % ch, "-DSUBFORMAT=%s" % sub, "-DBYTEW=%d" % bw, "-DN_MAX=((1LL<<31)-1)", "-DENDIAN=SF_ENDIAN_" + en, "-include", "/verif/spec/abi_vaarg.h"] + ([ "-DSTAGE=" + os.environ["MAT5_STAGE"]] if os.environ.get("MAT5_STAGE") else []),
                      "cbmc_flags": ["--unwind", "130", "--unwindset", "v_write.0:520", "--object-bits", "10", "--max-field-sensitivity-array-size", "1100"],
                      "pre_gi_flags": ["--remove-function-body", "psf_log_printf", "--remove-function-body", "psf_bump_header_allocation",
                                       "--generate-function-body", "psf_bump_header_allocation",
                                       "--generate-function-body-options", "assert-false"], "timeout": 1800, "tier": "quick" if quick else "thorough",
                      "kind": "proof (pair lemma; channels and encoding enumerated; byte order enumerated; N <= 2^31-1 (the format's 32 bit column count) and sample rate symbolic; loops over literal strings unwound completely)",
                      "trusted": ["harness virtual-I/O callbacks stand for the caller's SF_VIRTUAL_IO (header region stored, audio region a length)",
                                  "psf_log_printf compiled out; the date text of the MAT5 banner is a fixed string"]})
    # C10: open-for-write acceptance per container (real sf_format_check + real X_open + real header writer)
    # codec initialisers called by each container's open function but defined elsewhere: found mechanically in the
    # source on every run and replaced by call-counting stand-ins (signatures from common.h)
    import os, re
    repo = os.environ.get("VERIF_REPO", "/repo")
    protos = {}
    try:
        for m in re.finditer(r"^int\s+(\w+_init)\s*\((SF_PRIVATE\s*\*\s*psf[^)]*)\)\s*;", open(os.path.join(repo, "src", "common.h")).read(), re.M):
            protos[m.group(1)] = m.group(2)
    except OSError:
        pass
    CONTAINERS = [("aiff", "SF_FORMAT_AIFF", []), ("au", "SF_FORMAT_AU", []), ("wav", "SF_FORMAT_WAV", ["wavlike.c", "chunk.c", "strings.c", "broadcast.c", "cart.c", "id3.c"]),
                  ("w64", "SF_FORMAT_W64", ["wavlike.c", "chunk.c", "strings.c", "broadcast.c", "cart.c"]),
                  ("voc", "SF_FORMAT_VOC", []), ("svx", "SF_FORMAT_SVX", []),
                  ("mat4", "SF_FORMAT_MAT4", []),
                  ("htk", "SF_FORMAT_HTK", []), ("avr", "SF_FORMAT_AVR", []),
                  ("raw", "SF_FORMAT_RAW", []), ("wve", "SF_FORMAT_WVE", []), ("mpc2k", "SF_FORMAT_MPC2K", [])]
    OPENS = {}
    for cname, cfmt, extra_link in CONTAINERS:
        try:
            txt = open(os.path.join(repo, "src", cname + ".c"), errors="replace").read()
        except OSError:
            continue
        called = sorted(set(re.findall(r"\b(\w+_init)\s*\(psf", txt)))
        defined = set(re.findall(r"^(\w+_init)\s*\(SF_PRIVATE", txt, re.M))
        stubs = []
        for fn in called:
            if fn in defined or fn not in protos:
                continue
            stubs.append("int %s (%s) { g_init_calls ++ ; return 0 ; }" % (fn, protos[fn]))
        OPENS[cname] = (cname + ".c", cname + "_open", cfmt, " ".join(stubs), extra_link)
    # channel counts the real sf_format_check admits at all for the container (otherwise the unit has no admitted
    # combination to talk about and is vacuous: measured in the thorough tier)
    MAXCH = {"avr": 2, "htk": 1, "mpc2k": 2, "svx": 1, "voc": 2, "wve": 1}
    for cname, (cfile, openfn, cfmt, stubs, extra_link) in OPENS.items():
        for ch in (1, 2, 3):
            if ch > MAXCH.get(cname, 3):
                continue
            U.append({"name": "open.%s.ch%d" % (cname, ch), "props": ["C10"], "harness": "hdr_open.harness.c", "entry": "h_open_write",
                      "dfcc": False, "function": "%s:%s (write mode) + sndfile.c:sf_format_check" % (cfile, openfn),
                      "link_sources": ["common.c", "file_io.c", "sndfile.c"] + extra_link,
                      "defines": ["-DCH=%d" % ch, "-DCONTAINER_FILE=\"%s\"" % cfile, "-DOPEN_FN=%s" % openfn, "-DCONTAINER_FMT=%s" % cfmt,
                                  "-DCODEC_STUBS=%s" % stubs] + (["-DNO_HEADER"] if cname == "raw" else []),
                      "cbmc_flags": ["--unwind", "80", "--unwindset", "v_write.0:1030", "--object-bits", "12"], "timeout": 1200, "tier": "quick" if (ch == 1 or (ch == 2 and cname in ("aiff", "wav", "caf", "au"))) else "thorough",
                      "pre_gi_flags": ["--remove-function-body", "psf_log_printf"],
                      "kind": "proof (encoding and byte order symbolic over everything the real sf_format_check admits; channels enumerated)",
                      "trusted": ["codec initialisers replaced by call-counting stand-ins", "harness virtual-I/O callbacks"]})
    # C11: WAV header update for every admitted encoding (same harness, second stage)
    # written, but out of reach: 24 GB exhausted during propositional reduction (symbolic file position in the second
    # header pass over a 1 KiB store); not registered unless VERIF_WIP_WAVUPDATE is set
    if "wav" in OPENS and os.environ.get("VERIF_WIP_WAVUPDATE"):
        cfile, openfn, cfmt, stubs, extra_link = OPENS["wav"]
        for sub in ("IMA_ADPCM", "MS_ADPCM", "GSM610", "G721_32", "NMS_ADPCM_16", "NMS_ADPCM_24", "NMS_ADPCM_32", "PCM_16", "FLOAT", "ULAW"):
          for ch in ((1, 2) if sub in ("IMA_ADPCM", "MS_ADPCM") else (1,)):
            U.append({"name": "update.wav.%s.ch%d" % (sub, ch), "props": ["C11"], "harness": "hdr_open.harness.c", "entry": "h_open_write",
                      "dfcc": False, "function": "wav.c:wav_open + wav_write_header (calc_length) + sndfile.c:sf_format_check",
                      "link_sources": ["common.c", "file_io.c", "sndfile.c"] + extra_link,
                      "defines": ["-DCH=%d" % ch, "-DCONTAINER_FILE=\"%s\"" % cfile, "-DOPEN_FN=%s" % openfn, "-DCONTAINER_FMT=%s" % cfmt,
                                  "-DCODEC_STUBS=%s" % stubs, "-DWAV_UPDATE_CHECK", "-DSUBFORMAT_FIXED=SF_FORMAT_" + sub], "mem_gb": 24,
                      "cbmc_flags": ["--unwind", "80", "--unwindset", "v_write.0:1030", "--object-bits", "12"], "timeout": 900,
                      "tier": "quick" if (ch == 1 and sub in ("IMA_ADPCM", "GSM610", "PCM_16")) else "thorough", "pre_gi_flags": ["--remove-function-body", "psf_log_printf"],
                      "kind": "enumerated(encoding=%s, channels=%d); audio bytes L and frames symbolic" % (sub, ch),
                      "trusted": ["codec initialisers replaced by call-counting stand-ins (block codecs leave bytewidth 0 as the real ones do)", "harness virtual-I/O callbacks"]})
    U.append({"name": "mat5.mat5_write_header", "props": ["C04", "C10"], "harness": "mat5_hdr.harness.c", "entry": "h_mat5_write_header", "dfcc": False,
              "function": "mat5.c:mat5_write_header", "timeout": 900, "cbmc_flags": ["--object-bits", "9", "--unwind", "130"],
              "kind": "proof(plain harness; rate, channels, frames, encoding, byte order symbolic; loops over literal strings unwound completely)",
              "trusted": ["E1 recording model of psf_binheader_writef (byte count from the format string; recognises the sample-rate and dimension elements)",
                          "the date text of the banner is a short string", "the reader's accepted element tags are named by their constants (mat5_read_header)"]})
    U.append({"name": "sds.sds_write_header", "props": ["C11", "C07"], "harness": "sds_hdr.harness.c", "entry": "h_sds_write_header", "enforce": "sds_write_header",
              "function": "sds.c:sds_write_header", "timeout": 600, "cbmc_flags": ["--object-bits", "9"],
              "replace": ["psf_ftell", "psf_fseek", "psf_fwrite"],
              "trusted": ["E1 model of psf_binheader_writef (advances the header cache index)", "packet_writer_c: effect of sds_{2,3,4}byte_write on position and counters (frame contract, not enforced)",
                          "ghost file position driven by the psf_ftell / psf_fseek / psf_fwrite contracts"]})
    for cname, fn in (("au", "au_read_header"), ("avr", "avr_read_header"), ("htk", "htk_read_header"), ("wve", "wve_read_header"), ("mpc2k", "mpc2k_read_header"),
                      ("mat4", "mat4_read_header"), ("mat5", "mat5_read_header"), ("ircam", "ircam_read_header"),
                      ("paf", "paf_read_header"), ("wavlike", "wavlike_fmt_h")):
        U.append({"name": "parser." + cname, "props": ["C03"], "harness": "parser.harness.c", "entry": "h_parser", "dfcc": False,
                  "function": "%s.c:%s" % (cname, fn.replace("wavlike_fmt_h", "wavlike_read_fmt_chunk")), "defines": ["-DPARSER_FILE=\"%s.c\"" % cname, "-DREAD_FN=" + fn] + (["-DWAVLIKE_FMT_WRAPPER", "-DLINKS_COMMON"] if cname == "wavlike" else []),
                  "link_sources": (["common.c"] if cname == "wavlike" else []), "pre_gi_flags": (["--remove-function-body", "psf_log_printf"] if cname == "wavlike" else []),
                  "cbmc_flags": ["--object-bits", "9", "--unwind", "24" if cname == "wavlike" else "12", "--unwindset", "strlen.0:520,memcmp.0:20"], "timeout": 600, "drop_flags": ["--signed-overflow-check"],
                  "note": "signed overflow of arithmetic on hostile header fields is not checked here (seen: htk.c 2 * sample_count + 12, offsets near INT_MAX): the property speaks of memory errors, hangs and insane info",
                  "kind": "proof(every value read from the file unconstrained; loops over format strings unwound completely)",
                  "trusted": ["E1 model of psf_binheader_readf driven by the format string (destinations checked for the field / block size, filled with unconstrained bytes)",
                              "file length / position answers unconstrained"]})
    # (bext / cart chunk parsers: the same harness applies, but a symbolic-size fill of the 16 KiB structures does not finish: not registered)
    for nm, fn, argt, extra in (("peak.ch2", "wavlike_read_peak_chunk", "size_t", ["-DCHANNELS=2"]), ("peak.ch3", "wavlike_read_peak_chunk", "size_t", ["-DCHANNELS=3"])):
        U.append({"name": "parser.wavlike." + nm, "props": ["C03"], "harness": "parser.harness.c", "entry": "h_parser", "dfcc": False,
                  "function": "wavlike.c:" + fn, "defines": ["-DPARSER_FILE=\"wavlike.c\"", "-DREAD_FN=wrap_chunk_parser", "-DWRAP_FN=" + fn, "-DWRAP_ARG_T=" + argt, "-DLINKS_COMMON"] + extra,
                  "link_sources": ["common.c", "broadcast.c", "cart.c"], "pre_gi_flags": ["--remove-function-body", "psf_log_printf"],
                  "cbmc_flags": ["--object-bits", "9", "--unwind", "12", "--unwindset", "strlen.0:520,memcmp.0:20"], "timeout": 600, "drop_flags": ["--signed-overflow-check"],
                  "kind": "proof(chunk size and every value read from the file unconstrained)" + ("; channels enumerated" if extra else ""),
                  "trusted": ["E1 model of psf_binheader_readf driven by the format string (destinations checked for the field / block size)"]})
    # chunk-loop parsers: bounded stand-in (the file ends after N header reads; loops unwound completely under that bound)
    for cname, fn, budget, extra in (("svx", "svx_read_header", 10, []), ("voc", "voc_read_header", 10, []), ("aiff", "aiff_read_header_h", 14, ["-DAIFF_WRAPPER", "-DLINKS_COMMON"]))[:(3 if os.environ.get("VERIF_WIP_AIFF") else 2)]:
        U.append({"link_sources": (["common.c", "chunk.c", "strings.c", "float32.c", "double64.c"] if cname == "aiff" else []),
                  "pre_gi_flags": (["--remove-function-body", "psf_log_printf"] if cname == "aiff" else []),"name": "parser.%s.bounded" % cname, "props": ["C03"], "harness": "parser.harness.c", "entry": "h_parser", "dfcc": False,
                  "function": "%s.c:%s" % (cname, fn.replace("_h", "")), "defines": ["-DPARSER_FILE=\"%s.c\"" % cname, "-DREAD_FN=" + fn, "-DREAD_BUDGET=%d" % budget] + extra,
                  "cbmc_flags": ["--object-bits", "9", "--unwind", str(budget + 3), "--unwindset", "strlen.0:260,strcmp.0:64"], "timeout": 900, "mem_gb": 24, "drop_flags": ["--signed-overflow-check"],
                  "kind": "bounded(file ends after %d header reads; chunk loop unwound completely under that bound)" % budget, "tier": "thorough",
                  "trusted": ["E1 model of psf_binheader_readf driven by the format string", "file length / position answers unconstrained until the end of file"]})
    WAVFMT = [("PCM_U8", 1), ("PCM_16", 2), ("PCM_24", 3), ("PCM_32", 4), ("FLOAT", 4), ("DOUBLE", 8), ("ULAW", 1), ("ALAW", 1), ("IMA_ADPCM", 0), ("MS_ADPCM", 0), ("GSM610", 0)]
    for sub, bw in (WAVFMT if os.environ.get("VERIF_WIP_WAVFMT") else []):
        for ch in (1, 2):
            if sub == "GSM610" and ch == 2:
                continue
            U.append({"name": "wav.fmt_chunk_pair.%s.ch%d" % (sub, ch), "props": ["C04", "C10"], "harness": "wav_fmt_pair.harness.c", "entry": "h_wav_fmt_pair", "dfcc": False,
                      "function": "wav.c:wav_write_fmt_chunk + wavlike.c:wavlike_read_fmt_chunk (with common.c psf_binheader_writef/readf)",
                      "link_sources": ["wavlike.c", "common.c"], "defines": ["-DCH=%d" % ch, "-DSUBFORMAT=SF_FORMAT_" + sub, "-DBW=%d" % bw, "-include", "/verif/spec/abi_vaarg.h"],
                      "pre_gi_flags": ["--remove-function-body", "psf_log_printf"], "cbmc_flags": ["--object-bits", "9", "--unwind", "70", "--unwindset", "strlen.0:520,memcmp.0:20"],
                      "timeout": 900, "tier": "quick" if (sub, ch) in (("PCM_16", 2), ("PCM_24", 1), ("FLOAT", 2), ("ULAW", 1), ("IMA_ADPCM", 2), ("MS_ADPCM", 1)) else "thorough",
                      "kind": "proof(pair lemma; encoding and channels enumerated; sample rate symbolic up to 2^19)",
                      "trusted": ["spec/abi_vaarg.h (variadic int arguments fetched as size_t)", "MS ADPCM coefficient table stand-in (28 bytes of header)"]})
    # WAV length bookkeeping (DFCC): header writer and tailer
    for bw in (0, 2, 3):
        for ch in (1, 2):
            for fn, entry, props in (("wav_write_header", "h_wav_write_header", ["C11", "C04"]), ("wav_write_tailer", "h_wav_write_tailer", ["C08", "C04"])):
                U.append({"name": "wav.%s.bw%d.ch%d" % (fn, bw, ch), "props": props, "harness": "wav_hdr.harness.c", "entry": entry, "enforce": fn,
                          "function": "wav.c:" + fn, "defines": ["-DCH=%d" % ch, "-DBW=%d" % bw], "timeout": 600, "cbmc_flags": ["--object-bits", "9"],
                          "replace": ["psf_ftell", "psf_get_filelen", "psf_fseek", "psf_fwrite", "wav_write_fmt_chunk", "wavex_write_fmt_chunk", "wavlike_write_strings",
                                      "wavlike_write_peak_chunk", "wavlike_write_bext_chunk", "wavlike_write_cart_chunk", "wavlike_write_custom_chunks"],
                          "tier": "quick" if (ch == 2 or bw == 0) else "thorough",
                          "kind": "enumerated(sample width=%d (0: block codec), channels=%d)" % (bw, ch),
                          "trusted": ["E1 model of psf_binheader_writef (advances the header cache index; header bytes not modelled)",
                                      "frame contracts of the chunk writers of wavlike.c", "no cue / instrument metadata (assumption in the handle predicate)"]})
    return U


NOT_DECIDED = {
    "C04": ["containers other than AU have no pair lemma yet; G72x encodings in AU (frame count comes from the codec initialiser)"],
    "C11": ["containers other than AU; block codecs with a partly filled block"],
    "C10": ["open-for-write acceptance of CAF, PVF, PAF, IRCAM, NIST, MAT5, RF64, SDS, XI (header writers with large zero padding, text formatting or private state: no unit yet)",
            "the converse direction (what sf_format_check rejects fails to open) and the enumeration commands",
            "sample rates above 2^19 (informational products such as bytes-per-second overflow int in some writers)"],
}
