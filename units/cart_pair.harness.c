/* C12: the cart chunk of WAV-like files, writer against reader, through the REAL code:
** wavlike_write_cart_chunk -> bytes in the header cache -> wavlike_read_cart_chunk on the real
** psf_binheader_writef / readf.  Every text field (at an arbitrary ghost index), the level reference, the eight post
** timers, the URL and the tag text (size enumerated) come back unchanged.
*/
#include "env_pre.h"
#define psf_log_printf(...)		verif_nolog ()
#include "wavlike.c"
void verif_nolog (void) { }
#include "ghost.h"
#include "env_stubs.h"

#ifndef TAG
#define TAG 0
#endif
#define HDR 4096
static unsigned char hw [HDR], hr [HDR] ;
static SF_PRIVATE W, R ;
static SF_CART_INFO_16K wc, rc ;

SF_CART_INFO_16K * cart_var_alloc (void) { memset (&rc, 0, sizeof (rc)) ; return &rc ; }	/* the reader's block (calloc'ed in cart.c) */

#define SAME64(f)	(rc.f [g] == wc.f [g])
void h_cart_pair (void)
{	GHOST_HAVOC () ;
	int g = g_idx ;
	__CPROVER_havoc_object (&wc) ;		/* every field of the caller's cart info unconstrained */
	wc.tag_text_size = TAG ;
	W.header.ptr = hw ; W.header.len = HDR ; W.rwf_endian = SF_ENDIAN_LITTLE ; W.cart_16k = &wc ;
	int wr = wavlike_write_cart_chunk (&W) ;
	__CPROVER_assert (wr == 0 && W.header.indx == 8 + WAV_CART_MIN_CHUNK_SIZE + TAG, "chunk has the length its size field announces") ; /*@C12.cart_chunk_length*/
	for (int k = 0 ; k < HDR ; k++) hr [k] = hw [k] ;
	R.header.ptr = hr ; R.header.len = HDR ; R.header.end = W.header.indx ; R.header.indx = 8 ; R.rwf_endian = SF_ENDIAN_LITTLE ; R.virtual_io = SF_TRUE ;
	int r = wavlike_read_cart_chunk (&R, WAV_CART_MIN_CHUNK_SIZE + TAG) ;
	__CPROVER_assert (r == 0 && R.cart_16k == &rc, "reader accepts the chunk the writer produced") ; /*@C12.cart_chunk_reopens*/
	if (0 <= g && g < 4) __CPROVER_assert (SAME64 (version), "version") ; /*@C12.cart_text_fields_round_trip*/
	if (0 <= g && g < 64) __CPROVER_assert (SAME64 (title) && SAME64 (artist) && SAME64 (cut_id) && SAME64 (client_id) && SAME64 (category) && SAME64 (classification)
		&& SAME64 (out_cue) && SAME64 (producer_app_id) && SAME64 (producer_app_version) && SAME64 (user_def), "64 byte text fields") ; /*@C12.cart_text_fields_round_trip*/
	if (0 <= g && g < 10) __CPROVER_assert (SAME64 (start_date) && SAME64 (end_date), "dates") ; /*@C12.cart_text_fields_round_trip*/
	if (0 <= g && g < 8) __CPROVER_assert (SAME64 (start_time) && SAME64 (end_time), "times") ; /*@C12.cart_text_fields_round_trip*/
	__CPROVER_assert (rc.level_reference == wc.level_reference, "level reference") ; /*@C12.cart_scalars_round_trip*/
	if (0 <= g && g < 8) __CPROVER_assert (rc.post_timers [g].value == wc.post_timers [g].value && rc.post_timers [g].usage [0] == wc.post_timers [g].usage [0]
		&& rc.post_timers [g].usage [3] == wc.post_timers [g].usage [3], "post timers") ; /*@C12.cart_timers_round_trip*/
	if (0 <= g && g < 1024) __CPROVER_assert (SAME64 (url), "URL") ; /*@C12.cart_text_fields_round_trip*/
	__CPROVER_assert (rc.tag_text_size == TAG, "tag text size") ; /*@C12.cart_tag_text_round_trips*/
	if (0 <= g && g < TAG) __CPROVER_assert (SAME64 (tag_text), "tag text") ; /*@C12.cart_tag_text_round_trips*/
	CANARY () ;
}
