/* C03: container header parsers on arbitrary input bytes.  Plain harness through the REAL parser: every value the
** parser obtains from the file (psf_binheader_readf output arguments, psf_fread data, file length and position
** answers) is unconstrained, so the obligations CBMC generates in the parser's own text -- array bounds, pointer
** validity, division by zero, shift ranges, signed overflow -- and the size of every raw block the parser asks the
** header cache to copy ('b' with a destination buffer) are checked for every input.  psf_binheader_readf
** (variadic) is redirected to a non-variadic model driven by the format string: it checks that each destination is
** writable for the size the format character / size argument stands for and fills it with unconstrained bytes.
** Claim on return: error, or a description within the ranges the later validation relies on.
*/
#include "env_pre.h"
#include <stdint.h>
#include "sfconfig.h"
#include "sndfile.h"
#include "sfendian.h"
#include "common.h"		/* the real prototypes first: the redirections below must not rewrite them */
#define psf_log_printf(...)		verif_nolog ()
void verif_nolog (void) ;
int verif_readf (SF_PRIVATE *psf, const char *fmt, int nargs, const uint64_t *args) ;
#define VM1(a)							(uint64_t) (a)
#define VM2(a, ...)						(uint64_t) (a), VM1 (__VA_ARGS__)
#define VM3(a, ...)						(uint64_t) (a), VM2 (__VA_ARGS__)
#define VM4(a, ...)						(uint64_t) (a), VM3 (__VA_ARGS__)
#define VM5(a, ...)						(uint64_t) (a), VM4 (__VA_ARGS__)
#define VM6(a, ...)						(uint64_t) (a), VM5 (__VA_ARGS__)
#define VM7(a, ...)						(uint64_t) (a), VM6 (__VA_ARGS__)
#define VM8(a, ...)						(uint64_t) (a), VM7 (__VA_ARGS__)
#define VM_PICK(_1, _2, _3, _4, _5, _6, _7, _8, NAME, ...)	NAME
#define VM(...)							VM_PICK (__VA_ARGS__, VM8, VM7, VM6, VM5, VM4, VM3, VM2, VM1) (__VA_ARGS__)
#define VN(...)							VM_PICK (__VA_ARGS__, 8, 7, 6, 5, 4, 3, 2, 1)
/* E1: append_snprintf (common.c, variadic) appends within maxlen and keeps the buffer terminated */
#define append_snprintf(dest, maxlen, ...)	verif_append ((dest), (maxlen))
void verif_append (char *dest, size_t maxlen) ;
#define psf_binheader_readf(psf, fmt, ...)	verif_readf ((psf), (fmt), VN (__VA_ARGS__), (const uint64_t []) { VM (__VA_ARGS__) })
#include PARSER_FILE
void verif_nolog (void) { }
#include "ghost.h"
#include "env_stubs.h"

/* E1 model of psf_binheader_readf for the format characters the simple parsers use */
#ifdef READ_BUDGET
int g_reads ;		/* bounded stand-in for chunk-loop parsers: the file ends after READ_BUDGET header reads */
#endif
int verif_readf (SF_PRIVATE *psf, const char *fmt, int nargs, const uint64_t *args)
{	int k, a = 0, bytes = 0 ;
#ifdef READ_BUDGET
	if (g_reads >= READ_BUDGET) return 0 ;		/* end of file: nothing delivered, destinations keep their content */
	g_reads ++ ;
#endif
	for (k = 0 ; k < 8 && fmt [k] != 0 ; k++)
	{	char c = fmt [k] ;
		int sz = 0 ;
		if (c == 'e' || c == 'E' || c == ' ') continue ;
		__CPROVER_assert (a < nargs, "E1 readf model: argument count matches the format string") ;
		if (c == 'p' || c == 'j' || c == 'o' || c == '!') { if (c != '!') a ++ ; continue ; }		/* position / skip: an integer argument */
		if (c == '1') sz = 1 ; else if (c == '2') sz = 2 ; else if (c == '3' || c == '4' || c == 'm') sz = 4 ;
		else if (c == '8') sz = 8 ; else if (c == 'f') sz = 4 ; else if (c == 'd') sz = 8 ;
		else if (c == 'h') sz = 16 ;
		else if (c == 'b')
		{	__CPROVER_assert (a + 1 < nargs, "E1 readf model: raw block has a size argument") ;
			size_t n = (size_t) args [a + 1] ;
			__CPROVER_assert (n == 0 || __CPROVER_w_ok ((void *) args [a], n), "raw block read: destination holds the requested size") ; /*@C03.raw_block_fits_its_destination*/
			if (n > 0 && n <= 65536) __CPROVER_havoc_slice ((void *) args [a], n) ;
			a += 2 ; continue ;
			}
		else __CPROVER_assert (0, "E1 readf model: format character not modelled") ;
		__CPROVER_assert (__CPROVER_w_ok ((void *) args [a], (size_t) sz), "scalar read: destination holds the field") ; /*@C03.scalar_field_fits_its_destination*/
		__CPROVER_havoc_slice ((void *) args [a], (size_t) sz) ;
		bytes += sz ; a ++ ;
		} ;
	int r_nd ; __CPROVER_assume (0 <= r_nd && r_nd <= 4096) ;
	return r_nd ;
}

/* E1 strstr: the parsers only compare the result with the start of the haystack (banner checks) */
char * strstr (const char *h, const char *n) { _Bool at_start_nd ; return at_start_nd ? (char *) h : NULL ; }
#ifdef READ_BUDGET
sf_count_t psf_ftell (SF_PRIVATE *psf) { sf_count_t nd ; if (g_reads >= READ_BUDGET) return psf->filelength ; return nd ; }
#else
sf_count_t psf_ftell (SF_PRIVATE *psf) { sf_count_t nd ; return nd ; }
#endif
sf_count_t psf_fseek (SF_PRIVATE *psf, sf_count_t offset, int whence) { sf_count_t nd ; return nd ; }
sf_count_t psf_get_filelen (SF_PRIVATE *psf) { sf_count_t nd ; return nd ; }
void verif_append (char *dest, size_t maxlen)
{	__CPROVER_assert (maxlen >= 1 && __CPROVER_w_ok (dest, maxlen), "E1 append_snprintf: destination holds maxlen bytes") ;
	__CPROVER_havoc_slice (dest, maxlen) ;
	dest [maxlen - 1] = 0 ;
}
sf_count_t psf_fread (void *ptr, sf_count_t bytes, sf_count_t items, SF_PRIVATE *psf)
{	__CPROVER_assert (bytes >= 0 && items >= 0 && (bytes * items == 0 || __CPROVER_w_ok (ptr, (size_t) (bytes * items))), "file read: destination holds the requested size") ; /*@C03.file_read_fits_its_destination*/
	sf_count_t nd ; __CPROVER_assume (0 <= nd && nd <= items) ; return nd ;
}

#ifndef LINKS_COMMON
int psf_isprint (int ch) { return (ch >= ' ' && ch <= '~') ; }		/* as in common.c (not linked in this unit) */
#endif

static unsigned char hbuf [256] ;
static SF_PRIVATE P ;
#ifdef WAVLIKE_FMT_WRAPPER
/* the 'fmt ' chunk parser shared by WAV, W64 and RF64: chunk size as found in the file */
static WAVLIKE_PRIVATE wav_priv ;
static int wavlike_fmt_h (SF_PRIVATE *psf)
{	int fmtsize_nd ;
	psf->container_data = &wav_priv ;
	return wavlike_read_fmt_chunk (psf, fmtsize_nd) ;
}
#endif
#ifdef WRAP_FN
/* chunk parsers that take the chunk size found in the file */
static WAVLIKE_PRIVATE wav_priv2 ;
static int wrap_chunk_parser (SF_PRIVATE *psf)
{	WRAP_ARG_T size_nd ;
	psf->container_data = &wav_priv2 ;
	int r = WRAP_FN (psf, size_nd) ;
	free (psf->broadcast_16k) ; free (psf->cart_16k) ; free (psf->peak_info) ;
	return r ;
}
#endif
#ifdef AIFF_WRAPPER
static AIFF_PRIVATE aiff_priv ;
static int aiff_read_header_h (SF_PRIVATE *psf)
{	COMM_CHUNK comm ;
	memset (&comm, 0, sizeof (comm)) ;
	psf->container_data = &aiff_priv ;		/* as aiff_open sets it up (calloc'ed) */
	return aiff_read_header (psf, &comm) ;
}
#endif

void h_parser (void)
{	sf_count_t fl, fo ; int mode_nd ;
	P.header.ptr = hbuf ; P.header.len = 256 ;
	P.filelength = fl ; P.fileoffset = fo ; P.file.mode = SFM_READ ;
#ifdef CHANNELS
	P.sf.channels = CHANNELS ;
#endif
	__CPROVER_assume (fl >= 0 && fo >= 0) ;
	int r = READ_FN (&P) ;
	REACH (r == 0, "some byte string is accepted") ;
	REACH (r != 0, "some byte string is refused") ;
	CANARY () ;
}
