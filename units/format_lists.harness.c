/* C10: "the simple, major and subtype enumerations are sound".  Plain harness over the REAL tables of src/command.c
** and the REAL sf_format_check (src/sndfile.c), complete unwinding over the (constant length) tables:
**  - every simple format the library lists (index symbolic) is accepted by sf_format_check for a mono stream -- what
**    an application gets from SFC_GET_SIMPLE_FORMAT can be opened for writing --, has a name and an extension;
**  - every major format listed is a container id (no encoding / byte order bits), distinct from the other entries,
**    found again by SFC_GET_FORMAT_INFO; every subtype listed is an encoding id, likewise;
**  - indices outside the counts are refused.
*/
#include "env_pre.h"
#define psf_log_printf(...)		verif_nolog ()
#include "command.c"
void verif_nolog (void) { }
#include "ghost.h"

int sf_format_check (const SF_INFO *info) ;

void h_format_lists (void)
{	int k, k2 ;
	SF_FORMAT_INFO fi, fj ;
	int ns = psf_get_format_simple_count (), nm = psf_get_format_major_count (), nt = psf_get_format_subtype_count () ;

	fi.format = k ;
	int rs = psf_get_format_simple (&fi) ;
	if (0 <= k && k < ns)
	{	SF_INFO info ; memset (&info, 0, sizeof (info)) ;
		info.channels = 1 ; info.samplerate = 16000 ; info.format = fi.format ;
		__CPROVER_assert (rs == 0 && fi.name != NULL && fi.extension != NULL, "listed simple format has a name and an extension") ; /*@C10.simple_formats_are_described*/
		__CPROVER_assert (sf_format_check (&info) == 1, "every listed simple format is accepted by sf_format_check (mono)") ; /*@C10.simple_formats_can_be_written*/
		}
	else
		__CPROVER_assert (rs != 0, "index outside the simple list is refused") ; /*@C09.format_list_index_out_of_range*/

	fi.format = k ;
	int rm = psf_get_format_major (&fi) ;
	if (0 <= k && k < nm)
	{	__CPROVER_assert (rm == 0 && fi.format != 0 && (fi.format & ~SF_FORMAT_TYPEMASK) == 0 && fi.name != NULL && fi.extension != NULL, "listed major format is a container id with a name and an extension") ; /*@C10.major_formats_are_container_ids*/
		fj.format = fi.format ;
		__CPROVER_assert (psf_get_format_info (&fj) == 0 && fj.format == fi.format, "SFC_GET_FORMAT_INFO finds every listed container") ; /*@C10.format_info_finds_listed_formats*/
		fj.format = k2 ;
		if (0 <= k2 && k2 < nm && k2 != k && psf_get_format_major (&fj) == 0)
			__CPROVER_assert (fj.format != fi.format, "no container is listed twice") ; /*@C10.major_formats_are_distinct*/
		}
	else
		__CPROVER_assert (rm != 0, "index outside the major list is refused") ; /*@C09.format_list_index_out_of_range*/

	fi.format = k ;
	int rt = psf_get_format_subtype (&fi) ;
	if (0 <= k && k < nt)
	{	__CPROVER_assert (rt == 0 && fi.format != 0 && (fi.format & ~SF_FORMAT_SUBMASK) == 0 && fi.name != NULL, "listed subtype is an encoding id with a name") ; /*@C10.subtypes_are_encoding_ids*/
		fj.format = fi.format ;
		__CPROVER_assert (psf_get_format_info (&fj) == 0 && fj.format == fi.format, "SFC_GET_FORMAT_INFO finds every listed encoding") ; /*@C10.format_info_finds_listed_formats*/
		}
	else
		__CPROVER_assert (rt != 0, "index outside the subtype list is refused") ; /*@C09.format_list_index_out_of_range*/
	REACH (0 <= k && k < ns && k < nm && k < nt, "index valid in all three lists") ;
	CANARY () ;
}
