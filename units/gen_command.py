"""C18 / C17: src/command.c signal-max scans."""


def units():
    U = []
    for ch, withmax in ((1, 1), (2, 1), (3, 1), (2, 0), (3, 0)):
        inner = {"loop_id": 0, "assigns_locals": True,
                 "invariants": "0 <= k && k <= readcount && readcount <= 1024 && max_val >= 0.0 && 0 <= gc.delivered && gc.delivered <= (1LL << 42)" +
                               (" && ((0 <= g_n && g_n < gc.delivered - readcount + k) ==> max_val >= __CPROVER_fabs (g_val))" if withmax else ""),
                 "decreases": "readcount - k"}
        outer = {"loop_id": 1, "assigns_locals": True,
                 "assigns": "psf->error, psf->read_current, psf->last_op, __CPROVER_object_whole (&gc), __CPROVER_object_whole (data)",
                 "invariants": "max_val >= 0.0 && 0 <= readcount && readcount <= 1024 && gc.remaining >= 0 && gc.remaining <= (1LL << 42) && 0 <= gc.delivered && gc.delivered <= (1LL << 42) && gc.delivered + gc.remaining <= (1LL << 41) "
                               "&& 0 <= psf->read_current && psf->read_current <= (1LL << 40)"
                               "&& gc.seek_failed == __CPROVER_loop_entry (gc.seek_failed) "
                               "&& psf->write_current == __CPROVER_loop_entry (psf->write_current) && psf->norm_double == __CPROVER_loop_entry (psf->norm_double) "
                               + (" && ((0 <= g_n && g_n < gc.delivered) ==> max_val >= __CPROVER_fabs (g_val))" if withmax else ""),
                 "decreases": "gc.remaining + (readcount > 0 ? 1 : 0)"}
        U.append({"name": "command.psf_calc_signal_max.ch%d%s" % (ch, "" if withmax else ".state"), "props": ["C18", "C17", "C09"], "harness": "command_calc.harness.c",
                  "entry": "h_calc_signal_max", "enforce": "psf_calc_signal_max", "function": "command.c:psf_calc_signal_max",
                  "replace": ["sf_command", "sf_seek", "sf_read_double"], "defines": ["-DCH=%d" % ch] + ([] if withmax else ["-DNO_MAX_CLAUSE"]),
                  "loops": {"psf_calc_signal_max": [inner, outer]}, "timeout": 900,
                  "kind": "enumerated(channels=%d)" % ch, "tier": "thorough" if withmax else "quick",
                  "trusted": ["sf_command / sf_seek / sf_read_double: clauses proved in the sndfile.c units, restated as replacement contracts",
                              "environment: input is finite, every non-empty read consumes some of it (termination measure)"]})
    for ch, withmax in ((2, 0), (3, 0), (2, 1), (3, 1)):
        inner = {"loop_id": 0, "assigns_locals": True, "assigns": "__CPROVER_object_whole (peaks)",
                 "invariants": "0 <= k && k <= readcount && readcount <= 1024 && readcount %% CH == 0 && 0 <= chan && chan < CH && 0 <= gc.delivered && gc.delivered <= (1LL << 42) && gc.delivered %% CH == 0 && chan == k %% CH" +
                               (" && ((0 <= g_n && g_n < gc.delivered - readcount + k) ==> peaks [g_n %% CH] >= __CPROVER_fabs (g_val))" if withmax else ""),
                 "decreases": "readcount - k"}
        outer = {"loop_id": 1, "assigns_locals": True,
                 "assigns": "psf->error, psf->read_current, psf->last_op, __CPROVER_object_whole (&gc), __CPROVER_object_whole (data), __CPROVER_object_whole (peaks)",
                 "invariants": "0 <= readcount && readcount <= 1024 && readcount %% CH == 0 && chan == 0 && len > 0 && len <= 1024 && len %% CH == 0 && gc.remaining >= 0 && gc.remaining <= (1LL << 42) && 0 <= gc.delivered && gc.delivered <= (1LL << 42) "
                               "&& gc.delivered %% CH == 0 && gc.delivered + gc.remaining <= (1LL << 41) && 0 <= psf->read_current && psf->read_current <= (1LL << 40)"
                               "&& gc.seek_failed == __CPROVER_loop_entry (gc.seek_failed) "
                               "&& psf->write_current == __CPROVER_loop_entry (psf->write_current) && psf->norm_double == __CPROVER_loop_entry (psf->norm_double) "
                               + (" && ((0 <= g_n && g_n < gc.delivered) ==> peaks [g_n %% CH] >= __CPROVER_fabs (g_val))" if withmax else ""),
                 "decreases": "gc.remaining + (readcount > 0 ? 1 : 0)"}
        for lp in (inner, outer):
            if withmax:     # every channel's running maximum is a number >= 0 (never NaN: the comparison would stop updating it)
                lp["invariants"] += "".join(" && peaks [%d] >= 0.0" % c for c in range(ch))
            lp["invariants"] = lp["invariants"].replace("%%", "%").replace("CH", str(ch))
        U.append({"name": "command.psf_calc_max_all_channels.ch%d%s" % (ch, "" if withmax else ".state"), "props": ["C18", "C17", "C09"], "harness": "command_calc.harness.c",
                  "entry": "h_calc_max_all", "enforce": "psf_calc_max_all_channels", "function": "command.c:psf_calc_max_all_channels",
                  "replace": ["sf_command", "sf_seek", "sf_read_double"], "defines": ["-DCH=%d" % ch] + ([] if withmax else ["-DNO_MAX_CLAUSE"]),
                  "loops": {"psf_calc_max_all_channels": [inner, outer]}, "timeout": 900,
                  "kind": "enumerated(channels=%d)" % ch, "tier": "thorough" if withmax else "quick",
                  "trusted": ["sf_command / sf_seek / sf_read_double: clauses proved in the sndfile.c units, restated as replacement contracts",
                              "environment: input is finite, every non-empty read consumes some of it (termination measure)"]})
    U.append({"name": "command.format_lists", "props": ["C10", "C09"], "harness": "format_lists.harness.c", "entry": "h_format_lists", "dfcc": False,
              "function": "command.c:psf_get_format_simple/_major/_subtype/_info + counts; sndfile.c:sf_format_check", "link_sources": ["sndfile.c"],
              "cbmc_flags": ["--object-bits", "9", "--unwind", "80"], "timeout": 900,
              "kind": "proof(list index symbolic; constant tables unwound completely)", "trusted": []})
    U.append({"name": "command.psf_get_max_all_channels", "props": ["C18", "C17"], "harness": "peak_get.harness.c", "entry": "h_peak_get", "enforce": "psf_get_max_all_channels",
              "function": "command.c:psf_get_max_all_channels", "defines": ["-DU_ALL"], "timeout": 600, "backend": "kissat", "cbmc_flags": ["--object-bits", "9"],
              "loops": {"psf_get_max_all_channels": [{"loop_id": 0, "assigns_locals": True, "assigns": "__CPROVER_object_whole (peaks)",
                        "invariants": "0 <= k && k <= psf->sf.channels && ((0 <= g_idx && g_idx < k) ==> peaks [g_idx] == vin_val)", "decreases": "psf->sf.channels - k"}]},
              "trusted": []})
    for ch in (1, 2, 3, 8):
        U.append({"name": "command.psf_get_signal_max.ch%d" % ch, "props": ["C18", "C17"], "harness": "peak_get.harness.c", "entry": "h_peak_get", "enforce": "psf_get_signal_max",
                  "function": "command.c:psf_get_signal_max", "defines": ["-DU_MAX", "-DFIX_CH=%d" % ch], "timeout": 600, "backend": "kissat",
                  "cbmc_flags": ["--object-bits", "9", "--unwindset", "psf_get_signal_max.0:%d" % (ch + 1)], "tier": "quick" if ch in (2, 3) else "thorough",
                  "kind": "enumerated(channels=%d); loop unwound completely" % ch, "trusted": ["stored peak values are numbers (not NaN)"]})
    return U


NOT_DECIDED = {
    "C18": ["that the returned maximum is attained by some stored sample (only: it dominates every delivered sample and is >= 0)",
            "PEAK chunk serialisation (wavlike/aiff/caf peak writers and readers): no unit yet",
            "read position after SFC_CALC_* on a read/write handle whose read and write positions differ: moved by the plain tell (known finding KF2)"],
}
