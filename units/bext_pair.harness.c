/* C12: the broadcast (bext) chunk of WAV-like files, writer against reader, through the REAL code:
** wavlike_write_bext_chunk -> bytes in the header cache -> wavlike_read_bext_chunk on the real
** psf_binheader_writef / readf.  Every field of the fixed part (text fields at an arbitrary ghost index, the time
** reference, version, UMID, loudness values) and the coding history (size enumerated) come back unchanged.
*/
#include "env_pre.h"
#define psf_log_printf(...)		verif_nolog ()
#include "wavlike.c"
void verif_nolog (void) { }
#include "ghost.h"
#include "env_stubs.h"

#ifndef HIST
#define HIST 0
#endif
#define HDR 1024
static unsigned char hw [HDR], hr [HDR] ;
static SF_PRIVATE W, R ;
static SF_BROADCAST_INFO_16K wb, rb ;

SF_BROADCAST_INFO_16K * broadcast_var_alloc (void) { memset (&rb, 0, sizeof (rb)) ; return &rb ; }	/* the reader's block (calloc'ed in broadcast.c) */

void h_bext_pair (void)
{	GHOST_HAVOC () ;
	int g = g_idx ;
	__CPROVER_havoc_object (&wb) ;		/* every field of the caller's broadcast info unconstrained */
	wb.coding_history_size = HIST ;
	W.header.ptr = hw ; W.header.len = HDR ; W.rwf_endian = SF_ENDIAN_LITTLE ; W.broadcast_16k = &wb ;
	int wr = wavlike_write_bext_chunk (&W) ;
	__CPROVER_assert (wr == 0 && W.header.indx == 8 + WAV_BEXT_MIN_CHUNK_SIZE + HIST, "chunk has the length its size field announces") ; /*@C12.bext_chunk_length*/
	for (int k = 0 ; k < HDR ; k++) hr [k] = hw [k] ;
	R.header.ptr = hr ; R.header.len = HDR ; R.header.end = W.header.indx ; R.header.indx = 8 ; R.rwf_endian = SF_ENDIAN_LITTLE ; R.virtual_io = SF_TRUE ;
	int r = wavlike_read_bext_chunk (&R, WAV_BEXT_MIN_CHUNK_SIZE + HIST) ;
	__CPROVER_assert (r == 0 && R.broadcast_16k == &rb, "reader accepts the chunk the writer produced") ; /*@C12.bext_chunk_reopens*/
	if (0 <= g && g < 256) __CPROVER_assert (rb.description [g] == wb.description [g], "description") ; /*@C12.bext_text_fields_round_trip*/
	if (0 <= g && g < 32) __CPROVER_assert (rb.originator [g] == wb.originator [g] && rb.originator_reference [g] == wb.originator_reference [g], "originator, reference") ; /*@C12.bext_text_fields_round_trip*/
	if (0 <= g && g < 10) __CPROVER_assert (rb.origination_date [g] == wb.origination_date [g], "date") ; /*@C12.bext_text_fields_round_trip*/
	if (0 <= g && g < 8) __CPROVER_assert (rb.origination_time [g] == wb.origination_time [g], "time") ; /*@C12.bext_text_fields_round_trip*/
	if (0 <= g && g < 64) __CPROVER_assert (rb.umid [g] == wb.umid [g], "UMID") ; /*@C12.bext_umid_round_trips*/
	__CPROVER_assert (rb.time_reference_low == wb.time_reference_low && rb.time_reference_high == wb.time_reference_high && rb.version == wb.version, "time reference, version") ; /*@C12.bext_scalars_round_trip*/
	__CPROVER_assert (rb.loudness_value == wb.loudness_value && rb.loudness_range == wb.loudness_range && rb.max_true_peak_level == wb.max_true_peak_level
		&& rb.max_momentary_loudness == wb.max_momentary_loudness && rb.max_shortterm_loudness == wb.max_shortterm_loudness, "loudness fields") ; /*@C12.bext_scalars_round_trip*/
	__CPROVER_assert (rb.coding_history_size == HIST, "coding history size") ; /*@C12.bext_history_round_trips*/
	if (0 <= g && g < HIST) __CPROVER_assert (rb.coding_history [g] == wb.coding_history [g], "coding history") ; /*@C12.bext_history_round_trips*/
	CANARY () ;
}
