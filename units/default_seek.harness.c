/* C06 / C08 / C09: psf_default_seek (src/common.c), the codec seek of every sample-granular encoding (PCM, float,
** G.711).  A successful seek to frame k positions the file at dataoffset + k * blockwidth -- so that the next read
** delivers frame k --, a failed repositioning is reported with an error, unseekable handles and handles without a
** block width are refused.
*/
#include "env_pre.h"
#include "common.c"
#include "ghost.h"
#include "env_stubs.h"

sf_count_t g_seek_arg, g_seek_ret ; int g_seek_whence, g_fseek_calls ;
sf_count_t vin_k, vin_dataoffset ; int vin_blockwidth, vin_seekable ;

sf_count_t psf_fseek (SF_PRIVATE *psf, sf_count_t offset, int whence)
__CPROVER_requires (__CPROVER_r_ok (psf, sizeof (SF_PRIVATE)))
__CPROVER_assigns (psf->error, psf->pipeoffset, psf->syserr, g_seek_arg, g_seek_ret, g_seek_whence, g_fseek_calls)
__CPROVER_ensures (g_seek_arg == offset && g_seek_whence == whence && g_seek_ret == __CPROVER_return_value && g_fseek_calls == __CPROVER_old (g_fseek_calls) + 1)
;

sf_count_t psf_default_seek (SF_PRIVATE *psf, int mode, sf_count_t samples_from_start)
__CPROVER_requires (__CPROVER_is_fresh (psf, sizeof (SF_PRIVATE)) && psf->error == 0 && g_fseek_calls == 0)
__CPROVER_requires (0 <= psf->blockwidth && psf->blockwidth <= 8192 && psf->blockwidth == vin_blockwidth && psf->dataoffset <= (1LL << 40) && psf->dataoffset >= -1 && psf->dataoffset == vin_dataoffset)
__CPROVER_requires (0 <= samples_from_start && samples_from_start <= (1LL << 47) && samples_from_start == vin_k && psf->sf.seekable == vin_seekable)
__CPROVER_assigns (psf->error, psf->pipeoffset, psf->syserr, g_seek_arg, g_seek_ret, g_seek_whence, g_fseek_calls)
__CPROVER_ensures (__CPROVER_return_value == vin_k || __CPROVER_return_value == PSF_SEEK_ERROR) /*@C06.codec_seek_returns_target_or_error*/
__CPROVER_ensures (__CPROVER_return_value == PSF_SEEK_ERROR ==> psf->error != 0) /*@C06.seek_failure_sets_error*/ /*@C09.seek_failure_sets_error*/
__CPROVER_ensures (__CPROVER_return_value != PSF_SEEK_ERROR ==>
	(g_fseek_calls == 1 && g_seek_whence == SEEK_SET && g_seek_arg == vin_dataoffset + (sf_count_t) vin_blockwidth * vin_k && g_seek_ret == g_seek_arg)) /*@C06.file_positioned_at_the_target_frame*/ /*@C08.file_positioned_at_the_target_frame*/
__CPROVER_ensures ((vin_blockwidth == 0 || vin_dataoffset < 0 || !vin_seekable) ==> (__CPROVER_return_value == PSF_SEEK_ERROR && g_fseek_calls == 0)) /*@C09.unseekable_or_unsized_handle_refused*/
;

void h_default_seek (void)
{	SF_PRIVATE *psf ; int mode ; sf_count_t k ;
	{ sf_count_t a [2] ; int b [2] ; vin_k = a [0] ; vin_dataoffset = a [1] ; vin_blockwidth = b [0] ; vin_seekable = b [1] ; }
	g_fseek_calls = 0 ;
	sf_count_t r = psf_default_seek (psf, mode, k) ;
	REACH (r > 0, "seek succeeds") ; REACH (r == -1 && g_fseek_calls == 1, "repositioning fails") ;
	CANARY () ;
}
