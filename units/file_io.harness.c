/* C14 / C15 / C19 / C16: src/file_io.c (POSIX branch).  The contracts every other unit ASSUMES for
** psf_fread / psf_fwrite / psf_fseek / psf_ftell (spec/io_contracts.h) are ENFORCED here on the real
** functions, on both routes: the descriptor route (read/write/lseek are the environment models E3 below:
** any call may fail, transfer fewer bytes, be interrupted finitely often) and the virtual-I/O route (the
** caller's callbacks obey E4: they transfer at most what was asked).  Descriptor ownership: psf_fclose
** closes the descriptor exactly when it is the library's to close; psf_close_rsrc forgets what it closed.
*/
#include "env_pre.h"
#include <fcntl.h>
#include <sys/stat.h>
#include <unistd.h>
/* open() is variadic: redirected to a non-variadic model (E3) */
int verif_open (const char *path) ;
#define open(p, ...)	verif_open (p)
#include "file_io.c"
#include "ghost.h"
#include "env_stubs.h"

#ifndef BYTES
#define BYTES 2
#endif

/* ---- E3: POSIX models ---- */
int g_eintr_budget ;		/* EINTR happens finitely often */
unsigned g_close_calls ; int g_closed_fd ;
static int verif_errno_cell ;
int * __errno_location (void) { return &verif_errno_cell ; }

ssize_t read (int fd, void *buf, size_t n)
{	__CPROVER_assert (n == 0 || __CPROVER_w_ok (buf, n), "E3 read: buffer writable for n bytes") ;
	ssize_t r_nd ; int e_nd ;
	if (r_nd < 0)
	{	if (g_eintr_budget > 0 && e_nd == EINTR) { g_eintr_budget -- ; verif_errno_cell = EINTR ; }
		else verif_errno_cell = (e_nd == EINTR || e_nd == 0) ? EIO : e_nd ;
		return -1 ;
		} ;
	__CPROVER_assume ((size_t) r_nd <= n) ;
	if (r_nd > 0) __CPROVER_havoc_object (buf) ;
	return r_nd ;
}
ssize_t write (int fd, const void *buf, size_t n)
{	__CPROVER_assert (n == 0 || __CPROVER_r_ok (buf, n), "E3 write: buffer readable for n bytes") ;
	ssize_t r_nd ; int e_nd ;
	if (r_nd < 0)
	{	if (g_eintr_budget > 0 && e_nd == EINTR) { g_eintr_budget -- ; verif_errno_cell = EINTR ; }
		else verif_errno_cell = (e_nd == EINTR || e_nd == 0) ? EIO : e_nd ;
		return -1 ;
		} ;
	__CPROVER_assume ((size_t) r_nd <= n) ;
	return r_nd ;
}
off_t lseek (int fd, off_t off, int whence)
{	off_t r_nd ; int e_nd ;
	if (r_nd < 0) { verif_errno_cell = e_nd == 0 ? EIO : e_nd ; return -1 ; }
	return r_nd ;
}
unsigned g_opened, g_released ;	/* descriptors obtained from open(); descriptors given back (a close that is not interrupted) */
int close (int fd)
{	int r_nd, e_nd ;
	g_close_calls ++ ; g_closed_fd = fd ;
	if (r_nd != 0)
	{	if (g_eintr_budget > 0 && e_nd == EINTR) { g_eintr_budget -- ; verif_errno_cell = EINTR ; return -1 ; }
		verif_errno_cell = (e_nd == EINTR || e_nd == 0) ? EIO : e_nd ;
		g_released ++ ;
		return -1 ;
		} ;
	g_released ++ ;
	return 0 ;
}
int verif_open (const char *path)
{	int r_nd, e_nd ;
	__CPROVER_assert (__CPROVER_r_ok (path, 1), "E3 open: path readable") ;
	if (r_nd < 0) { verif_errno_cell = e_nd == 0 ? ENOENT : e_nd ; return -1 ; }
	g_opened ++ ;
	return r_nd ;
}
int g_ftrunc_calls, g_ftrunc_fd ; off_t g_ftrunc_len ;
int ftruncate (int fd, off_t len)
{	int r_nd, e_nd ;
	g_ftrunc_calls ++ ; g_ftrunc_fd = fd ; g_ftrunc_len = len ;
	if (r_nd) { verif_errno_cell = e_nd == 0 ? EIO : e_nd ; return -1 ; }
	return 0 ;
}
int fstat (int fd, struct stat *st)
{	int r_nd ; off_t s_nd ;
	if (r_nd) { verif_errno_cell = EIO ; return -1 ; }
	__CPROVER_assume (0 <= s_nd && s_nd <= (1LL << 60)) ;		/* E3: file sizes are not negative and below 2^60 */
	st->st_size = s_nd ;
	return 0 ;
}
char * strerror (int e) { static char msg [8] = "error" ; return msg ; }

/* psf_log_printf (common.c, variadic) is given a generated no-op body in these units: the parse log is outside
** what they establish */

/* ---- E4: the caller's SF_VIRTUAL_IO callbacks inside their documented contract ---- */
sf_count_t vio_read_c (void *ptr, sf_count_t count, void *user_data)
__CPROVER_requires (count >= 0 && (count == 0 || __CPROVER_w_ok (ptr, (size_t) count)))
__CPROVER_assigns (count > 0: __CPROVER_object_from (ptr))
__CPROVER_ensures (0 <= __CPROVER_return_value && __CPROVER_return_value <= count)
;
sf_count_t vio_write_c (const void *ptr, sf_count_t count, void *user_data)
__CPROVER_requires (count >= 0 && (count == 0 || __CPROVER_r_ok (ptr, (size_t) count)))
__CPROVER_assigns ()
__CPROVER_ensures (0 <= __CPROVER_return_value && __CPROVER_return_value <= count)
;
sf_count_t vio_seek_c (sf_count_t offset, int whence, void *user_data)
__CPROVER_assigns ()
__CPROVER_ensures (1)
;
sf_count_t vio_tell_c (void *user_data)
__CPROVER_assigns ()
__CPROVER_ensures (1)
;

#define HANDLE(psf)	(__CPROVER_is_fresh (psf, sizeof (SF_PRIVATE)) && (psf->virtual_io == SF_FALSE || psf->virtual_io == SF_TRUE) \
	&& 0 <= psf->pipeoffset && psf->pipeoffset <= (1LL << 50) && 0 <= psf->fileoffset && psf->fileoffset <= (1LL << 50) \
	&& (!psf->virtual_io || (__CPROVER_obeys_contract (psf->vio.read, vio_read_c) && __CPROVER_obeys_contract (psf->vio.write, vio_write_c) \
		&& __CPROVER_obeys_contract (psf->vio.seek, vio_seek_c) && __CPROVER_obeys_contract (psf->vio.tell, vio_tell_c))) \
	&& 0 <= g_eintr_budget && g_eintr_budget <= 1000)

#define IO_ENFORCE_HANDLE(psf)	HANDLE (psf)
/* the environment's own state (errno, the EINTR budget) is part of the frame when the contract is enforced */
#define IO_ENV_TARGETS		, g_eintr_budget, verif_errno_cell
#define IO_CONTRACT_ENFORCE
#include "io_contracts.h"

/* the enforced contracts are the declarations of io_contracts.h (included above); here only the extra
** preconditions the enforcement needs: a concrete handle */
int vin_virtual, vin_do_not_close, vin_filedes, vin_rsrc ;

int psf_fclose (SF_PRIVATE *psf)
__CPROVER_requires (__CPROVER_is_fresh (psf, sizeof (SF_PRIVATE)) && 0 <= g_eintr_budget && g_eintr_budget <= 1000)
__CPROVER_requires (psf->virtual_io == vin_virtual && psf->file.do_not_close_descriptor == vin_do_not_close && psf->file.filedes == vin_filedes && g_close_calls == 0)
__CPROVER_assigns (psf->file.filedes, psf->error, psf->syserr, g_close_calls, g_released, g_closed_fd, g_eintr_budget, verif_errno_cell)
__CPROVER_ensures ((vin_virtual || vin_do_not_close || vin_filedes < 0) ==> g_close_calls == 0) /*@C14.descriptor_not_owned_is_never_closed*/ /*@C16.descriptor_not_owned_is_never_closed*/
__CPROVER_ensures ((!vin_virtual && !vin_do_not_close && vin_filedes >= 0) ==> (g_close_calls >= 1 && g_closed_fd == vin_filedes)) /*@C14.owned_descriptor_is_closed*/ /*@C16.owned_descriptor_is_closed*/
__CPROVER_ensures (!vin_virtual ==> psf->file.filedes == -1) /*@C19.closed_descriptor_is_forgotten*/
;

int psf_close_rsrc (SF_PRIVATE *psf)
__CPROVER_requires (__CPROVER_is_fresh (psf, sizeof (SF_PRIVATE)) && 0 <= g_eintr_budget && g_eintr_budget <= 1000)
__CPROVER_requires (psf->rsrc.filedes == vin_rsrc && g_close_calls == 0)
__CPROVER_assigns (psf->rsrc.filedes, g_close_calls, g_released, g_closed_fd, g_eintr_budget, verif_errno_cell)
__CPROVER_ensures (psf->rsrc.filedes == -1) /*@C19.closed_descriptor_is_forgotten*/ /*@C16.closed_descriptor_is_forgotten*/
__CPROVER_ensures (vin_rsrc < 0 ==> g_close_calls == 0) /*@C14.descriptor_not_owned_is_never_closed*/
__CPROVER_ensures (vin_rsrc >= 0 ==> g_closed_fd == vin_rsrc) /*@C16.owned_descriptor_is_closed*/
__CPROVER_ensures (__CPROVER_return_value == 0)
;

int psf_open_rsrc (SF_PRIVATE *psf)
__CPROVER_requires (__CPROVER_is_fresh (psf, sizeof (SF_PRIVATE)) && 0 <= g_eintr_budget && g_eintr_budget <= 1000)
__CPROVER_requires (psf->rsrc.filedes == vin_rsrc && g_opened == 0 && g_released == 0 && g_close_calls == 0)
__CPROVER_assigns (psf->rsrc.filedes, psf->rsrclength, psf->error, __CPROVER_object_whole (psf->rsrc.path), __CPROVER_object_whole (psf->syserr),
	g_opened, g_released, g_close_calls, g_closed_fd, g_eintr_budget, verif_errno_cell)
__CPROVER_ensures (vin_rsrc > 0 ==> (g_opened == 0 && __CPROVER_return_value == 0))
__CPROVER_ensures (vin_rsrc <= 0 ==> g_opened - g_released == (psf->rsrc.filedes >= 0 ? 1u : 0u)) /*@C16.every_probed_descriptor_is_kept_or_closed*/
__CPROVER_ensures ((vin_rsrc <= 0 && __CPROVER_return_value != 0) ==> psf->rsrc.filedes < 0) /*@C16.failed_probe_records_no_descriptor*/
;

sf_count_t vin_tlen ;
int psf_ftruncate (SF_PRIVATE *psf, sf_count_t len)
__CPROVER_requires (__CPROVER_is_fresh (psf, sizeof (SF_PRIVATE)) && psf->file.filedes == vin_filedes && len == vin_tlen && g_ftrunc_calls == 0)
__CPROVER_assigns (psf->error, __CPROVER_object_upto (psf->syserr, sizeof (psf->syserr)), g_ftrunc_calls, g_ftrunc_fd, g_ftrunc_len, verif_errno_cell)
__CPROVER_ensures (vin_tlen < 0 ==> (__CPROVER_return_value != 0 && g_ftrunc_calls == 0)) /*@C08.negative_length_is_refused*/ /*@C09.negative_length_is_refused*/
__CPROVER_ensures (vin_tlen >= 0 ==> (g_ftrunc_calls == 1 && g_ftrunc_fd == vin_filedes && g_ftrunc_len == vin_tlen)) /*@C08.file_cut_at_the_requested_length*/
__CPROVER_ensures ((vin_tlen >= 0 && __CPROVER_return_value != 0) ==> psf->error != 0) /*@C15.failed_truncate_sets_error*/ /*@C09.failed_truncate_sets_error*/
;

sf_count_t vio_len_c (void *user_data)
__CPROVER_assigns ()
__CPROVER_ensures (1)
;
int psf_file_valid (SF_PRIVATE *psf)
__CPROVER_requires (__CPROVER_is_fresh (psf, sizeof (SF_PRIVATE)))
__CPROVER_assigns ()
__CPROVER_ensures (__CPROVER_return_value == (psf->file.filedes >= 0 ? SF_TRUE : SF_FALSE)) /*@C09.handle_validity_is_the_descriptor_test*/ /*@C14.handle_validity_is_the_descriptor_test*/
;
int psf_is_pipe (SF_PRIVATE *psf)
__CPROVER_requires (__CPROVER_is_fresh (psf, sizeof (SF_PRIVATE)))
__CPROVER_assigns (psf->error, __CPROVER_object_upto (psf->syserr, sizeof (psf->syserr)), verif_errno_cell)
__CPROVER_ensures (__CPROVER_return_value == SF_TRUE || __CPROVER_return_value == SF_FALSE)
__CPROVER_ensures (psf->virtual_io ==> __CPROVER_return_value == SF_FALSE) /*@C14.virtual_io_is_never_a_pipe*/
;
sf_count_t psf_get_filelen (SF_PRIVATE *psf)
__CPROVER_requires (__CPROVER_is_fresh (psf, sizeof (SF_PRIVATE)) && -(1LL << 50) <= psf->fileoffset && psf->fileoffset <= (1LL << 50))
__CPROVER_requires (!psf->virtual_io || __CPROVER_obeys_contract (psf->vio.get_filelen, vio_len_c))
__CPROVER_assigns (psf->error, __CPROVER_object_upto (psf->syserr, sizeof (psf->syserr)), verif_errno_cell)
__CPROVER_ensures ((!psf->virtual_io && __CPROVER_return_value == -1) ==> (psf->error != 0 || (psf->file.mode != SFM_READ && psf->file.mode != SFM_WRITE && psf->file.mode != SFM_RDWR) || psf->file.mode == SFM_WRITE)) /*@C15.failed_length_query_sets_error*/
;

int vin_fmode ;
int psf_fopen (SF_PRIVATE *psf)
__CPROVER_requires (__CPROVER_is_fresh (psf, sizeof (SF_PRIVATE)) && psf->file.mode == vin_fmode && g_opened == 0)
__CPROVER_assigns (psf->error, psf->file.filedes, __CPROVER_object_upto (psf->syserr, sizeof (psf->syserr)), g_opened, verif_errno_cell)
__CPROVER_ensures (__CPROVER_return_value == psf->error) /*@C09.open_reports_its_error*/
__CPROVER_ensures ((vin_fmode != SFM_READ && vin_fmode != SFM_WRITE && vin_fmode != SFM_RDWR) ==> (__CPROVER_return_value == SFE_BAD_OPEN_MODE && psf->file.filedes == -1 && g_opened == 0)) /*@C09.bad_open_mode_refused*/ /*@C14.bad_open_mode_refused*/
__CPROVER_ensures (__CPROVER_return_value == 0 ==> (psf->file.filedes >= 0 && g_opened == 1)) /*@C14.successful_open_records_the_descriptor*/ /*@C16.successful_open_records_the_descriptor*/
__CPROVER_ensures (__CPROVER_return_value != 0 ==> (psf->file.filedes == -1 && g_opened == 0)) /*@C16.failed_open_leaves_no_descriptor*/ /*@C15.failed_open_leaves_no_descriptor*/
;
int psf_set_stdio (SF_PRIVATE *psf)
__CPROVER_requires (__CPROVER_is_fresh (psf, sizeof (SF_PRIVATE)) && psf->file.mode == vin_fmode && psf->file.filedes == vin_filedes)
__CPROVER_assigns (psf->file.filedes, psf->filelength)
__CPROVER_ensures (vin_fmode == SFM_READ ==> (__CPROVER_return_value == 0 && psf->file.filedes == 0)) /*@C14.stdin_for_reading*/
__CPROVER_ensures (vin_fmode == SFM_WRITE ==> (__CPROVER_return_value == 0 && psf->file.filedes == 1)) /*@C14.stdout_for_writing*/
__CPROVER_ensures ((vin_fmode != SFM_READ && vin_fmode != SFM_WRITE) ==> (__CPROVER_return_value != 0 && psf->file.filedes == vin_filedes)) /*@C09.pipes_cannot_be_opened_read_write*/
;

int vin_save, vin_on ;
void psf_use_rsrc (SF_PRIVATE *psf, int on_off)
__CPROVER_requires (__CPROVER_is_fresh (psf, sizeof (SF_PRIVATE)) && psf->file.filedes == vin_filedes && psf->rsrc.filedes == vin_rsrc && psf->file.savedes == vin_save && on_off == vin_on)
__CPROVER_assigns (psf->file.filedes, psf->file.savedes)
__CPROVER_ensures (psf->rsrc.filedes == vin_rsrc) /*@C16.switching_forks_never_loses_a_descriptor*/
__CPROVER_ensures ((vin_on && vin_filedes != vin_rsrc) ==> (psf->file.filedes == vin_rsrc && psf->file.savedes == vin_filedes)) /*@C16.switching_forks_never_loses_a_descriptor*/ /*@C14.resource_fork_selected*/
__CPROVER_ensures ((vin_on && vin_filedes == vin_rsrc) ==> (psf->file.filedes == vin_filedes && psf->file.savedes == vin_save))
__CPROVER_ensures ((!vin_on && vin_filedes == vin_rsrc) ==> psf->file.filedes == vin_save) /*@C14.data_fork_restored*/ /*@C16.switching_forks_never_loses_a_descriptor*/
__CPROVER_ensures ((!vin_on && vin_filedes != vin_rsrc) ==> (psf->file.filedes == vin_filedes && psf->file.savedes == vin_save))
;

static void keep (void) { void *k [] = { (void *) vio_read_c, (void *) vio_write_c, (void *) vio_seek_c, (void *) vio_tell_c } ; (void) k ; }

void h_fread (void)
{	void *ptr ; sf_count_t items ; SF_PRIVATE *psf ; int nd ; g_eintr_budget = nd ; keep () ;
	__CPROVER_assume (0 <= g_eintr_budget && g_eintr_budget <= 1000) ;
	sf_count_t r = psf_fread (ptr, BYTES, items, psf) ;
	REACH (r > 0 && r < items, "short read") ;
	CANARY () ;
}
void h_fwrite (void)
{	const void *ptr ; sf_count_t items ; SF_PRIVATE *psf ; int nd ; g_eintr_budget = nd ; keep () ;
	__CPROVER_assume (0 <= g_eintr_budget && g_eintr_budget <= 1000) ;
	sf_count_t r = psf_fwrite (ptr, BYTES, items, psf) ;
	REACH (r > 0 && r < items, "short write") ;
	CANARY () ;
}
void h_fseek (void)
{	SF_PRIVATE *psf ; sf_count_t off ; int whence ; keep () ;
	psf_fseek (psf, off, whence) ;
	CANARY () ;
}
void h_ftell (void)
{	SF_PRIVATE *psf ; keep () ;
	psf_ftell (psf) ;
	CANARY () ;
}
void h_fclose (void)
{	SF_PRIVATE *psf ; int a [4] ; vin_virtual = a [0] ; vin_do_not_close = a [1] ; vin_filedes = a [2] ; g_eintr_budget = a [3] ; g_close_calls = 0 ;
	psf_fclose (psf) ;
	REACH (g_close_calls == 1, "descriptor closed") ;
	CANARY () ;
}
void h_use_rsrc (void) { SF_PRIVATE *psf ; int a [4] ; int on ; vin_filedes = a [0] ; vin_rsrc = a [1] ; vin_save = a [2] ; vin_on = a [3] ; psf_use_rsrc (psf, on) ; CANARY () ; }
void h_fopen (void) { SF_PRIVATE *psf ; int m ; vin_fmode = m ; g_opened = 0 ; int r = psf_fopen (psf) ; REACH (r == 0, "opened") ; REACH (r == SFE_SYSTEM, "system error") ; CANARY () ; }
void h_set_stdio (void) { SF_PRIVATE *psf ; int m, f ; vin_fmode = m ; vin_filedes = f ; psf_set_stdio (psf) ; CANARY () ; }
void h_file_valid (void) { SF_PRIVATE *psf ; psf_file_valid (psf) ; CANARY () ; }
void h_is_pipe (void) { SF_PRIVATE *psf ; int r = psf_is_pipe (psf) ; REACH (r == SF_TRUE, "descriptor is a pipe or cannot be examined") ; CANARY () ; }
void h_get_filelen (void) { SF_PRIVATE *psf ; void *k [] = { (void *) vio_len_c } ; (void) k ; sf_count_t r = psf_get_filelen (psf) ; REACH (r > 0, "length known") ; CANARY () ; }
void h_ftruncate (void)
{	SF_PRIVATE *psf ; sf_count_t len ; int a [1] ; sf_count_t l ; vin_filedes = a [0] ; vin_tlen = l ; g_ftrunc_calls = 0 ;
	int r = psf_ftruncate (psf, len) ;
	REACH (r == 0 && vin_tlen > 0, "file cut") ;
	CANARY () ;
}
void h_open_rsrc (void)
{	SF_PRIVATE *psf ; int a [2] ; vin_rsrc = a [0] ; g_eintr_budget = a [1] ; g_close_calls = 0 ; g_opened = 0 ; g_released = 0 ;
	int r = psf_open_rsrc (psf) ;
	REACH (r == 0 && g_opened == 2, "second probe succeeds after the first was closed") ;
	REACH (r != 0 && g_opened == 0, "no resource fork") ;
	CANARY () ;
}
void h_close_rsrc (void)
{	SF_PRIVATE *psf ; int a [2] ; vin_rsrc = a [0] ; g_eintr_budget = a [1] ; g_close_calls = 0 ;
	psf_close_rsrc (psf) ;
	CANARY () ;
}
