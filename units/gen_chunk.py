"""C13: src/chunk.c (write-chunk table, read-chunk table, lookups, iterator)."""

E1 = ["E1 libc model: snprintf writes <= n bytes, NUL-terminates (spec/env_stubs.h)",
      "E1 libc model: realloc may fail; fresh block of requested size, old block freed, common prefix preserved (units/chunk.harness.c)",
      "CBMC built-in models of calloc/strlen/memcpy/memset"]


def U(name, entry, enforce, **kw):
    d = {"name": "chunk." + name, "props": ["C13", "C19"], "harness": "chunk.harness.c", "entry": entry,
         "enforce": enforce, "function": "chunk.c:" + enforce, "trusted": E1, "timeout": 300}
    d.update(kw)
    return d


def K(name, entry, enforce, **kw):
    d = U(name, entry, enforce, **kw)
    d["harness"] = "chunk_key.harness.c"
    d["props"] = ["C13"]
    d["trusted"] = ["E1 libc models of snprintf (\"%s\" into the 5-byte marker union) and strlen (9-byte strings) in units/chunk_key.harness.c",
                    "hash_of_str is a pure function of the string (unit chunk.hash_of_str): its value for the one string in play is a ghost constant"]
    return d


def units():
    return [
        U("save_write_chunk", "h_save_write_chunk", "psf_save_write_chunk",
          replace=["psf_memdup", "hash_of_str"],
          cbmc_flags=["--unwindset", "psf_save_write_chunk.0:5,strlen.0:66"], replay_driver="chunk_save.c",
          props=["C13", "C03", "C16", "C19"],
          note="capacity steps covered by the table invariant for every count <= 4096, not by counting"),
        U("store_read_chunk", "h_store_read_chunk", "psf_store_read_chunk",
          props=["C13", "C03", "C16", "C19"]),
        U("find_m32", "h_find_m32", "psf_find_read_chunk_m32",
          loops={"psf_find_read_chunk_m32": [{"loop_id": 0,
                 "invariants": "k <= pchk->used && ((0 <= g_idx && (unsigned) g_idx < k) ==> pchk->chunks [g_idx].mark32 != marker)",
                 "decreases": "pchk->used - k"}]}),
        U("find_iterator", "h_find_iterator", "psf_find_read_chunk_iterator"),
        U("next_iterator", "h_next_iterator", "psf_next_chunk_iterator",
          loops={"psf_next_chunk_iterator": [{"loop_id": 0,
                 "invariants": "k >= iterator->current && (k <= pchk->used || k == iterator->current) && "
                               "((0 <= g_idx && (unsigned) g_idx >= iterator->current && (unsigned) g_idx < k) ==> pchk->chunks [g_idx].hash != hash)",
                 "decreases": "pchk->used - k"}]}),
        U("hash_of_str", "h_hash_of_str", "hash_of_str",
          loops={"hash_of_str": [{"loop_id": 0, "invariants": "0 <= k && k <= g_nul", "decreases": "g_nul - k"}]},
          drop_flags=["--signed-overflow-check"],
          note="int64 accumulation may overflow for ids longer than 9 characters (wraps on every supported target); not checked"),
        K("store_read_chunk_str", "h_store_str", "psf_store_read_chunk_str", replace=["hash_of_str", "psf_store_read_chunk"]),
        K("store_read_chunk_u32", "h_store_u32", "psf_store_read_chunk_u32", replace=["psf_store_read_chunk"]),
        K("find_read_chunk_str", "h_find_str", "psf_find_read_chunk_str", replace=["hash_of_str"],
          loops={"psf_find_read_chunk_str": [{"loop_id": 0, "assigns_locals": True,
                 "invariants": "k <= pchk->used && ((0 <= g_idx && (unsigned) g_idx < k) ==> pchk->chunks [g_idx].hash != hash)",
                 "decreases": "pchk->used - k"}]}),
        K("get_chunk_iterator", "h_get_iterator", "psf_get_chunk_iterator", replace=["hash_of_str", "psf_find_read_chunk_str"]),
    ]


NOT_DECIDED = {
    "C13": ["identifier strings shorter than 3 characters (bytes of the 4-byte marker are left uninitialised at every key site)",
            "serialisation of the chunk table into WAV/AIFF/CAF/RF64 bytes and back (pair lemma)"],
}
ASSUMPTIONS = {
    "C13": ["chunk table capacity <= 4096 entries in the table contracts (object size bound)",
            "chunk_info->id is a NUL-terminated string within its 64-byte array (documented as the chunk identifier string)"],
}
