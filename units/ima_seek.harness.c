/* C06: the IMA ADPCM seek functions (src/ima_adpcm.c, WAV and AIFF block layouts).  "Whenever sf_seek reports success
** for target frame k the following reads deliver exactly frames k, k+1, ...": at codec level a successful seek must
** leave (a) the decoded block buffer holding the block that contains frame k, (b) samplecount at k's index inside
** it, (c) blockcount consistent with the block held, and the file positioned behind that block.  Which block the
** buffer holds is ghost state: g_loaded_pos is the byte position the last decode_block call read its block from.
** Block geometry (channels, block size, samples per block) is enumerated by -D; everything else is symbolic.
*/
#include "env_pre.h"
#define psf_log_printf(...)		verif_nolog ()
#ifdef LAYOUT_GSM
#include "gsm610.c"
#define IMA_ADPCM_PRIVATE	GSM610_PRIVATE
#elif defined (LAYOUT_MS)
#include "ms_adpcm.c"
#define IMA_ADPCM_PRIVATE	MSADPCM_PRIVATE		/* same reader state fields: blocksize, samplesperblock, blocks, blockcount, samplecount */
#else
#include "ima_adpcm.c"
#endif
void verif_nolog (void) { }
#include "ghost.h"

#ifndef CH
#define CH 2
#endif
#ifdef LAYOUT_AIFF
#define K			CH				/* blockcount counts per-channel blocks */
#define BLOCKSIZE	34
#define SPB			64
#define SEEK_FN		aiff_ima_seek
#elif defined (LAYOUT_GSM)
#define K			1
#define BLOCKSIZE	WAVLIKE_GSM610_BLOCKSIZE		/* the WAV49 geometry: 65 bytes, 320 samples */
#define SPB			WAVLIKE_GSM610_SAMPLES
#define SEEK_FN		gsm610_seek
#elif defined (LAYOUT_MS)
#define K			1
#define BLOCKSIZE	(256 * CH)
#define SPB			(2 + 2 * (BLOCKSIZE - 7 * CH) / CH)
#define SEEK_FN		msadpcm_seek
#define decode_block_c	msadpcm_decode_block	/* called directly: replaced by the contract below */
#else
#define K			1
#define BLOCKSIZE	(256 * CH)
#define SPB			((BLOCKSIZE - 4 * CH) * 2 / CH + 1)
#define SEEK_FN		wavlike_ima_seek
#endif
#define BLOCKBYTES	((sf_count_t) BLOCKSIZE * K)

sf_count_t g_file_pos, g_loaded_pos ; int g_decode_calls ;
sf_count_t vin_offset, vin_dataoffset ; int vin_mode, vin_blocks ;
sf_count_t vin_q, vin_r ;	/* ghost quotient and remainder of the target by the block length: the specification does not divide */

sf_count_t psf_fseek (SF_PRIVATE *psf, sf_count_t offset, int whence)
__CPROVER_requires (__CPROVER_r_ok (psf, sizeof (SF_PRIVATE)) && whence == SEEK_SET && 0 <= offset && offset <= (1LL << 50))
__CPROVER_assigns (g_file_pos, psf->error)
__CPROVER_ensures (g_file_pos == offset)
;
/* what the block decoders do to the reader state (their sample output: C20 units) */
static int decode_block_c (SF_PRIVATE *psf, IMA_ADPCM_PRIVATE *pima)
__CPROVER_requires (__CPROVER_r_ok (psf, sizeof (SF_PRIVATE)) && __CPROVER_w_ok (pima, sizeof (IMA_ADPCM_PRIVATE)))
__CPROVER_requires (0 <= pima->blockcount && pima->blockcount <= (1 << 24) && 0 <= g_file_pos && g_file_pos <= (1LL << 50))
__CPROVER_assigns (pima->blockcount, pima->samplecount, g_loaded_pos, g_file_pos, g_decode_calls, psf->error)
__CPROVER_ensures (pima->blockcount == __CPROVER_old (pima->blockcount) + K && pima->samplecount == 0)
__CPROVER_ensures (g_loaded_pos == __CPROVER_old (g_file_pos) && g_file_pos == __CPROVER_old (g_file_pos) + BLOCKBYTES && g_decode_calls == __CPROVER_old (g_decode_calls) + 1)
;

#ifdef LAYOUT_GSM
void gsm_init (gsm g)
__CPROVER_assigns ()
__CPROVER_ensures (1)
;
int gsm_option (gsm g, int opt, int *val)
__CPROVER_assigns ()
__CPROVER_ensures (1)
;
#endif

#define PIMA	((IMA_ADPCM_PRIVATE *) psf->codec_data)
/* reader state invariant: nothing decoded yet, or the buffer holds block number blockcount / K - 1 */
#define LOADED_OK(pos)	(PIMA->blockcount == 0 || (PIMA->blockcount % K == 0 && (pos) == psf->dataoffset + (PIMA->blockcount / K - 1) * BLOCKBYTES))

static sf_count_t SEEK_FN (SF_PRIVATE *psf, int mode, sf_count_t offset)
__CPROVER_requires (__CPROVER_is_fresh (psf, sizeof (SF_PRIVATE)) && __CPROVER_is_fresh (psf->codec_data, sizeof (IMA_ADPCM_PRIVATE)))
#ifdef LAYOUT_GSM
__CPROVER_requires (psf->sf.channels == 1 && PIMA->blocksize == BLOCKSIZE && PIMA->samplesperblock == SPB && psf->file.mode == vin_mode)
/* the reader's position and its block state agree (what the "already there" shortcut relies on) */
__CPROVER_requires (0 <= PIMA->samplecount && PIMA->samplecount < SPB && 0 <= psf->read_current
	&& (PIMA->blockcount == 0 ? psf->read_current == 0 : psf->read_current == (sf_count_t) (PIMA->blockcount - 1) * SPB + PIMA->samplecount))
#else
__CPROVER_requires (psf->sf.channels == CH && PIMA->channels == CH && PIMA->blocksize == BLOCKSIZE && PIMA->samplesperblock == SPB)
#endif
__CPROVER_requires (0 <= PIMA->blocks && PIMA->blocks <= (1 << 20) && PIMA->blocks % K == 0 && 0 <= PIMA->blockcount && PIMA->blockcount <= PIMA->blocks + K)
#ifndef LAYOUT_MS
__CPROVER_requires (__CPROVER_obeys_contract (PIMA->decode_block, decode_block_c))
#endif
__CPROVER_requires (0 <= psf->dataoffset && psf->dataoffset <= (1LL << 40) && psf->dataoffset == vin_dataoffset && 0 <= psf->datalength)
__CPROVER_requires ((vin_offset < 0 || vin_offset > (1LL << 31)) || (0 <= vin_q && vin_q <= (1LL << 31) && 0 <= vin_r && vin_r < SPB && vin_offset == vin_q * SPB + vin_r))
__CPROVER_requires (offset == vin_offset && mode == vin_mode && PIMA->blocks == vin_blocks && g_decode_calls == 0 && LOADED_OK (g_loaded_pos))
__CPROVER_assigns (psf->error, g_file_pos, g_loaded_pos, g_decode_calls, PIMA->blockcount, PIMA->samplecount)
__CPROVER_ensures (__CPROVER_return_value == vin_offset || __CPROVER_return_value == PSF_SEEK_ERROR) /*@C06.codec_seek_returns_target_or_error*/
__CPROVER_ensures (__CPROVER_return_value == PSF_SEEK_ERROR ==> psf->error != 0 || vin_offset == 0) /*@C06.seek_failure_sets_error*/
__CPROVER_ensures ((__CPROVER_return_value != PSF_SEEK_ERROR) ==>
	(g_loaded_pos == vin_dataoffset + vin_q * BLOCKBYTES && PIMA->samplecount == vin_r)) /*@C06.block_buffer_holds_the_block_of_the_target_frame*/
__CPROVER_ensures ((__CPROVER_return_value != PSF_SEEK_ERROR) ==> (LOADED_OK (g_loaded_pos) && PIMA->blockcount == (vin_q + 1) * K)) /*@C06.block_accounting_matches_the_block_held*/
__CPROVER_ensures ((__CPROVER_return_value != PSF_SEEK_ERROR && g_decode_calls > 0) ==> g_file_pos == g_loaded_pos + BLOCKBYTES) /*@C06.file_positioned_for_the_next_block*/
;

void h_ima_seek (void)
{	SF_PRIVATE *psf ; int mode ; sf_count_t offset ;
#ifndef LAYOUT_MS
	void *keep_c [] = { (void *) decode_block_c } ; (void) keep_c ;
#endif
	{ sf_count_t a [4] ; int b [2] ; vin_offset = a [0] ; vin_dataoffset = a [1] ; g_file_pos = a [2] ; g_loaded_pos = a [3] ; vin_mode = b [0] ; vin_blocks = b [1] ; }
	{ sf_count_t c [2] ; vin_q = c [0] ; vin_r = c [1] ; }
	g_decode_calls = 0 ;
	sf_count_t r = SEEK_FN (psf, mode, offset) ;
	REACH (r > SPB && r % SPB != 0, "seek into the middle of a later block") ;
	REACH (r == -1, "seek refused") ;
	CANARY () ;
}
