"""C05 / C15 / C19 (and the count half of C07): every read/write implementation of the
codec table in src/pcm.c, src/ulaw.c and src/alaw.c against the implementation side of the
generic dispatch contract: 0 <= ret <= len, writes only the caller's `len` items (reads only
them, for writers), returns short only when the I/O primitive returned short, terminates
for every I/O outcome (loop contract with a decreases clause), changes nothing in the
handle except what the I/O primitive may change.

Callees are abstracted by contract: psf_fread / psf_fwrite (enforced on the real functions in
the file_io units) and the conversion kernels (frame contracts generated mechanically from
the kernel signatures found in the source on every run; the kernels' own value contracts are
the C02 units).  The staging loop is closed by an inductive loop contract.
"""
import os, re

REPO = os.environ.get("VERIF_REPO", "/repo")
SZ = {"short": 2, "int": 4, "float": 4, "double": 8, "signed char": 1, "unsigned char": 1, "tribyte": 3,
      "int16_t": 2, "int32_t": 4, "int64_t": 8}

HEAD = """#include "env_pre.h"
#include "%(file)s"
#include "ghost.h"

#define LEN_MAX (1LL << 28)
/* ghost: set by the I/O contracts when a transfer was short */
int g_io_short ;
sf_count_t vin_len ;

/* I/O primitives, tail frame (see DESIGN 4): may transfer fewer items than asked, may set the error */
sf_count_t psf_fread (void *ptr, sf_count_t bytes, sf_count_t items, SF_PRIVATE *psf)
__CPROVER_requires (bytes > 0 && bytes <= 8 && items >= 0 && items <= LEN_MAX)
__CPROVER_requires (items == 0 || __CPROVER_w_ok (ptr, (size_t) (bytes * items)))
__CPROVER_requires (__CPROVER_r_ok (psf, sizeof (SF_PRIVATE)))
__CPROVER_assigns (psf->error, psf->pipeoffset, psf->syserr, g_io_short; items > 0: __CPROVER_object_from (ptr))
__CPROVER_ensures (0 <= __CPROVER_return_value && __CPROVER_return_value <= items)
__CPROVER_ensures (__CPROVER_return_value == items ? (psf->error == __CPROVER_old (psf->error) && g_io_short == __CPROVER_old (g_io_short)) : g_io_short == 1)
;
sf_count_t psf_fwrite (const void *ptr, sf_count_t bytes, sf_count_t items, SF_PRIVATE *psf)
__CPROVER_requires (bytes > 0 && bytes <= 8 && items >= 0 && items <= LEN_MAX)
__CPROVER_requires (items == 0 || __CPROVER_r_ok (ptr, (size_t) (bytes * items)))
__CPROVER_requires (__CPROVER_r_ok (psf, sizeof (SF_PRIVATE)))
__CPROVER_assigns (psf->error, psf->pipeoffset, psf->syserr, g_io_short)
__CPROVER_ensures (0 <= __CPROVER_return_value && __CPROVER_return_value <= items)
__CPROVER_ensures (__CPROVER_return_value == items ? (psf->error == __CPROVER_old (psf->error) && g_io_short == __CPROVER_old (g_io_short)) : g_io_short == 1)
;
"""

SIG_RE = re.compile(r"^(\w+)\s*\(([^)]*)\)\s*$")


def kernel_sigs(path):
    """name -> list of (type, name) for every *_array / *_copy kernel defined in the file."""
    out = {}
    try:
        lines = open(path, errors="replace").read().split("\n")
    except OSError:
        return out
    for i, l in enumerate(lines):
        m = SIG_RE.match(l)
        if not m or not (m.group(1).endswith("_array") or m.group(1).endswith("_copy")):
            continue
        if i + 1 >= len(lines) or not lines[i + 1].startswith("{"):
            continue
        params = []
        for p in m.group(2).split(","):
            p = p.strip()
            pm = re.match(r"^(.*?)(\w+)$", p)
            params.append((pm.group(1).strip(), pm.group(2)))
        ret = lines[i - 1].strip()
        out[m.group(1)] = (ret, params)
    return out


def kernel_frame_contract(name, sig):
    ret, params = sig
    cnt = [n for t, n in params if t in ("int", "size_t") and n in ("count", "len")]
    if not cnt:
        return None
    c = cnt[0]
    req, dest = [], None
    for t, n in params:
        if "*" not in t:
            continue
        base = t.replace("const", "").replace("*", "").strip()
        sz = SZ.get(base)
        if sz is None:
            return None
        if "const" in t:
            req.append("__CPROVER_requires (%s == 0 || __CPROVER_r_ok (%s, (size_t) %s * %d))" % (c, n, c, sz))
        else:
            req.append("__CPROVER_requires (%s == 0 || __CPROVER_w_ok (%s, (size_t) %s * %d))" % (c, n, c, sz))
            dest = n
    if dest is None:
        return None
    plist = ", ".join("%s %s" % (t, n) for t, n in params)
    bound = "(1 << 28)" if name.startswith("endswap_") else "65536"
    return ("%s %s (%s)\n__CPROVER_requires (0 <= %s && %s <= %s)\n%s\n__CPROVER_assigns (%s > 0: __CPROVER_object_from (%s))\n;\n"
            % (ret, name, plist, c, c, bound, "\n".join(req), c, dest))


IMPL_READ = """
static sf_count_t %(fn)s (SF_PRIVATE *psf, %(T)s *ptr, sf_count_t len)
__CPROVER_requires (__CPROVER_is_fresh (psf, sizeof (SF_PRIVATE)))
__CPROVER_requires (len > 0 && len <= LEN_MAX && len == vin_len)
__CPROVER_requires (__CPROVER_is_fresh (ptr, (size_t) len * %(SZ)d))
__CPROVER_assigns (psf->error, psf->pipeoffset, psf->syserr, g_io_short, __CPROVER_object_whole (ptr))
__CPROVER_ensures (0 <= __CPROVER_return_value && __CPROVER_return_value <= len) /*@C05.impl_read_ret_range*/
__CPROVER_ensures (__CPROVER_return_value < len ==> g_io_short == 1) /*@C05.impl_short_only_when_io_short*/
__CPROVER_ensures (__CPROVER_return_value == len ==> psf->error == __CPROVER_old (psf->error)) /*@C09.impl_full_read_sets_no_error*/
;
void h_unit (void)
{	SF_PRIVATE *psf ; %(T)s *ptr ; sf_count_t len ; sf_count_t nd ;
	vin_len = nd ; g_io_short = 0 ;
	sf_count_t r = %(fn)s (psf, ptr, len) ;
	REACH (r == vin_len && vin_len > 9000, "full read larger than the staging buffer") ;
	REACH (r < vin_len && r > 9000, "short read after several chunks") ;
	CANARY () ;
}
"""

IMPL_WRITE = """
static sf_count_t %(fn)s (SF_PRIVATE *psf, const %(T)s *ptr, sf_count_t len)
__CPROVER_requires (__CPROVER_is_fresh (psf, sizeof (SF_PRIVATE)))
__CPROVER_requires (len > 0 && len <= LEN_MAX && len == vin_len)
__CPROVER_requires (__CPROVER_is_fresh (ptr, (size_t) len * %(SZ)d))
__CPROVER_assigns (psf->error, psf->pipeoffset, psf->syserr, g_io_short)
__CPROVER_ensures (0 <= __CPROVER_return_value && __CPROVER_return_value <= len) /*@C05.impl_write_ret_range*/
__CPROVER_ensures (__CPROVER_return_value < len ==> g_io_short == 1) /*@C05.impl_short_only_when_io_short*/
__CPROVER_ensures (__CPROVER_return_value == len ==> psf->error == __CPROVER_old (psf->error)) /*@C09.impl_full_write_sets_no_error*/
;
void h_unit (void)
{	SF_PRIVATE *psf ; const %(T)s *ptr ; sf_count_t len ; sf_count_t nd ;
	vin_len = nd ; g_io_short = 0 ;
	sf_count_t r = %(fn)s (psf, ptr, len) ;
	REACH (r == vin_len && vin_len > 9000, "full write larger than the staging buffer") ;
	REACH (r < vin_len && r > 9000, "short write after several chunks") ;
	CANARY () ;
}
"""

LOOP_INV = ("0 <= total && total <= LEN_MAX && 0 <= len && len <= LEN_MAX && total + len == __CPROVER_loop_entry (len) "
            "&& 0 < bufferlen && bufferlen <= %d "
            "&& g_io_short == __CPROVER_loop_entry (g_io_short) && psf->error == __CPROVER_loop_entry (psf->error)")

TYPE_OF = {"s": "short", "i": "int", "f": "float", "d": "double"}
ENC_BUFLEN = {"sc": 8192, "uc": 8192, "bes": 4096, "les": 4096, "bet": 2730, "let": 2730, "bei": 2048, "lei": 2048,
              "ulaw": 8192, "alaw": 8192}


def fn_list(path, prefix):
    out = []
    try:
        txt = open(path, errors="replace").read()
    except OSError:
        return out
    for m in re.finditer(r"^(%s_(read|write)_(\w+?)2(\w+?))\s*\(SF_PRIVATE \*psf" % prefix, txt, re.M):
        out.append((m.group(1), m.group(2), m.group(3), m.group(4)))
    return out


def function_body(path, fn):
    txt = open(path, errors="replace").read()
    m = re.search(r"^%s\s*\(SF_PRIVATE[^\n]*\n\{(.*?)^\}" % re.escape(fn), txt, re.S | re.M)
    return m.group(1) if m else ""


def units():
    U = []
    for fname, prefix in (("pcm.c", "pcm"), ("ulaw.c", "ulaw"), ("alaw.c", "alaw")):
        path = os.path.join(REPO, "src", fname)
        sigs = kernel_sigs(path)
        sigs.update({k: v for k, v in kernel_sigs(os.path.join(REPO, "src", "sfendian.h")).items()})
        for fn, kind, a, b in fn_list(path, prefix):
            host = b if kind == "read" else a
            enc = a if kind == "read" else b
            if host not in TYPE_OF:
                continue
            T = TYPE_OF[host]
            body = function_body(path, fn)
            # kernels this function calls (mechanically, from its body)
            called = sorted(set(k for k in sigs if re.search(r"\b%s\b" % re.escape(k), body)))
            decls, repl = [], ["psf_fread", "psf_fwrite"]
            ok = True
            for k in called:
                c = kernel_frame_contract(k, sigs[k])
                if c is None:
                    ok = False
                    break
                decls.append("static " + c if sigs[k][0].startswith("static") is False and False else c)
                repl.append(k)
            has_loop = "while (len > 0)" in body
            h = HEAD % dict(file=fname) + "\n/* kernel frame contracts (generated from the signatures in the source) */\n" + \
                "\n".join(decls) + ((IMPL_READ if kind == "read" else IMPL_WRITE) % dict(fn=fn, T=T, SZ=SZ[T]))
            u = {"name": "%s.%s" % (prefix, fn), "props": ["C05", "C15"] + (["C07"] if kind == "write" else ["C06"]),
                 "harness_text": h, "template": "units/gen_pcm_rw.py",
                 "entry": "h_unit", "enforce": fn, "function": "%s:%s" % (fname, fn), "replace": repl,
                 "timeout": 600, "tier": "quick",
                 "trusted": ["psf_fread/psf_fwrite contracts (tail frame): enforced on the real functions in the file_io units"]}
            if "convert = " in body:
                cands = [k for k in called if k.endswith("_array")]
                u["restrict_fp"] = ["%s.function_pointer_call.1/%s" % (fn, ",".join(cands))]
            if has_loop:
                u["loop_headers"] = []
                u["loops"] = {fn: [{"loop_id": 0, "assigns_locals": True, "optional": True,
                                    "assigns": ("psf->error, psf->pipeoffset, psf->syserr, g_io_short" + (", __CPROVER_object_whole (ptr)" if kind == "read" else "")),
                                    "invariants": (LOOP_INV % ENC_BUFLEN.get(enc, 8192)).replace("LEN_MAX", "(1LL << 28)"),
                                    "decreases": "len"}]}
            U.append(u)
    return U


NOT_DECIDED = {
    "C05": ["element order across staging chunks (delivered item k == converted stream item k) is argued from the kernel "
            "contracts (C02) and the chunk loop invariant total + len == len0, not proved as one clause"],
}
