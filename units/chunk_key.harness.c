/* C13: one lookup key per identifier string.  The read-chunk table is searched by a 64 bit key computed from the
** identifier string at three places in src/chunk.c (psf_store_read_chunk_str when a header parser records a chunk,
** psf_find_read_chunk_str for the first lookup, psf_get_chunk_iterator for the key the iterator carries to every
** later psf_next_chunk_iterator).  A chunk set with sf_set_chunk is found again only if all three agree.  Spec key:
**     KEY (s) = strlen (s) > 4 ? hash_of_str (s) : the four bytes s[0..3] as a little-endian word
** (hash_of_str is a pure function of the string -- unit chunk.hash_of_str: assigns nothing, reads only the string --
** so for the one string in play its value is the ghost constant g_str_hash).
** Identifier strings of 3 .. 8 characters (shorter ones leave bytes of the 4-byte marker uninitialised in all three
** places: outside this lemma), E1 models of snprintf ("%s") and strlen written for buffers of 9 bytes.
*/
#include <stdio.h>
#include <stddef.h>
#include <stdarg.h>
#include <string.h>
#include <stdlib.h>
#include <stdint.h>

int verif_snprintf_str (char *dst, size_t n, const char *src) ;
size_t verif_strlen9 (const char *s) ;
#define snprintf(d, n, fmt, s)	verif_snprintf_str ((d), (n), (s))
#define strlen(s)				verif_strlen9 (s)
#include "chunk.c"
#undef strlen
#include "ghost.h"

/* E1: snprintf (dst, n, "%s", src) for n <= 5: copies up to n-1 characters, terminates */
int verif_snprintf_str (char *dst, size_t n, const char *src)
{	__CPROVER_assert (n == 5, "E1 snprintf model: only the 5-byte marker union") ;
	size_t k = 0 ;
	if (src [0] != 0) { dst [0] = src [0] ; k = 1 ;
	if (src [1] != 0) { dst [1] = src [1] ; k = 2 ;
	if (src [2] != 0) { dst [2] = src [2] ; k = 3 ;
	if (src [3] != 0) { dst [3] = src [3] ; k = 4 ; } } } }
	dst [k] = 0 ;
	return (int) verif_strlen9 (src) ;
}
/* E1: strlen for strings terminated within 9 bytes */
size_t verif_strlen9 (const char *s)
{	if (s [0] == 0) return 0 ; if (s [1] == 0) return 1 ; if (s [2] == 0) return 2 ; if (s [3] == 0) return 3 ;
	if (s [4] == 0) return 4 ; if (s [5] == 0) return 5 ; if (s [6] == 0) return 6 ; if (s [7] == 0) return 7 ;
	__CPROVER_assert (s [8] == 0, "E1 strlen model: string terminated within 9 bytes") ;
	return 8 ;
}

int g_len ;				/* length of the identifier string */
int64_t g_str_hash ;	/* hash_of_str of the identifier string */
uint64_t g_stored_hash ; uint32_t g_stored_m32 ; unsigned g_stored_id_size ; int g_store_calls ;

#define STR_OK(s)	(3 <= g_len && g_len <= 8 && __CPROVER_is_fresh (s, 9) && s [g_len] == 0 \
	&& s [0] != 0 && s [1] != 0 && s [2] != 0 && (g_len <= 3 || s [3] != 0) && (g_len <= 4 || s [4] != 0) && (g_len <= 5 || s [5] != 0) \
	&& (g_len <= 6 || s [6] != 0) && (g_len <= 7 || s [7] != 0))
#define LE32(s)		((uint32_t) (unsigned char) s [0] | ((uint32_t) (unsigned char) s [1] << 8) | ((uint32_t) (unsigned char) s [2] << 16) | ((uint32_t) (unsigned char) s [3] << 24))
#define KEY(s)		(g_len > 4 ? (uint64_t) g_str_hash : (uint64_t) LE32 (s))

#define CHUNK_CAP	4096
#define RCHUNKS_WF(p)	((p)->count == 0 ? ((p)->used == 0 && (p)->chunks == NULL) : \
						((p)->used <= (p)->count && (p)->count <= CHUNK_CAP && \
						 __CPROVER_is_fresh ((p)->chunks, (size_t) (p)->count * sizeof (READ_CHUNK))))

static int64_t hash_of_str (const char * str)
__CPROVER_requires (__CPROVER_r_ok (str, 9))
__CPROVER_assigns ()
__CPROVER_ensures (__CPROVER_return_value == g_str_hash)
;

static int psf_store_read_chunk (READ_CHUNKS * pchk, const READ_CHUNK * rchunk)
__CPROVER_requires (__CPROVER_r_ok (rchunk, sizeof (READ_CHUNK)) && __CPROVER_r_ok (pchk, sizeof (READ_CHUNKS)))
__CPROVER_assigns (g_stored_hash, g_stored_m32, g_stored_id_size, g_store_calls)
__CPROVER_ensures (g_stored_hash == rchunk->hash && g_stored_m32 == rchunk->mark32 && g_stored_id_size == rchunk->id_size && g_store_calls == __CPROVER_old (g_store_calls) + 1)
;

int psf_store_read_chunk_str (READ_CHUNKS * pchk, const char * marker_str, sf_count_t offset, uint32_t len)
__CPROVER_requires (__CPROVER_is_fresh (pchk, sizeof (*pchk)) && STR_OK (marker_str) && g_store_calls == 0)
__CPROVER_assigns (g_stored_hash, g_stored_m32, g_stored_id_size, g_store_calls)
__CPROVER_ensures (g_store_calls == 1 && g_stored_hash == KEY (marker_str)) /*@C13.stored_key_is_the_key_of_the_identifier*/
__CPROVER_ensures (g_stored_m32 == LE32 (marker_str) && g_stored_id_size == (unsigned) g_len) /*@C13.stored_marker_and_id_size*/
;

/* chunks recorded by the header parsers under their four character code: the key is the marker word itself, i.e. the
** key KEY (s) of the identifier string s whose four bytes are that word */
uint32_t vin_marker ;
int psf_store_read_chunk_u32 (READ_CHUNKS * pchk, uint32_t marker, sf_count_t offset, uint32_t len)
__CPROVER_requires (__CPROVER_is_fresh (pchk, sizeof (*pchk)) && g_store_calls == 0 && marker == vin_marker)
__CPROVER_assigns (g_stored_hash, g_stored_m32, g_stored_id_size, g_store_calls)
__CPROVER_ensures (g_store_calls == 1 && g_stored_hash == (uint64_t) vin_marker && g_stored_m32 == vin_marker && g_stored_id_size == 4) /*@C13.four_character_chunks_are_keyed_by_their_marker_word*/
;

int psf_find_read_chunk_str (const READ_CHUNKS * pchk, const char * marker_str)
__CPROVER_requires (__CPROVER_is_fresh (pchk, sizeof (*pchk)) && RCHUNKS_WF (pchk) && STR_OK (marker_str))
__CPROVER_assigns ()
__CPROVER_ensures (__CPROVER_return_value == -1 || (0 <= __CPROVER_return_value && (uint32_t) __CPROVER_return_value < pchk->used
					&& pchk->chunks [__CPROVER_return_value].hash == KEY (marker_str))) /*@C13.find_str_hit_has_the_key*/
__CPROVER_ensures ((0 <= g_idx && (uint32_t) g_idx < pchk->used && pchk->chunks [g_idx].hash == KEY (marker_str)) ==>
					(0 <= __CPROVER_return_value && __CPROVER_return_value <= g_idx)) /*@C13.find_str_finds_the_first_chunk_with_the_key*/
;

#ifdef UNIT_GET_ITERATOR
/* as proved above, for the call made by psf_get_chunk_iterator */
#define FIND_PRE	(__CPROVER_r_ok (pchk, sizeof (*pchk)) && __CPROVER_r_ok (marker_str, 9))
#endif

SF_CHUNK_ITERATOR * psf_get_chunk_iterator (SF_PRIVATE * psf, const char * marker_str)
__CPROVER_requires (__CPROVER_is_fresh (psf, sizeof (SF_PRIVATE)) && RCHUNKS_WF (&psf->rchunks))
__CPROVER_requires (marker_str == NULL || STR_OK (marker_str))
__CPROVER_requires (psf->iterator == NULL || __CPROVER_is_fresh (psf->iterator, sizeof (SF_CHUNK_ITERATOR)))
__CPROVER_assigns (psf->iterator; psf->iterator != NULL: __CPROVER_object_whole (psf->iterator))
__CPROVER_ensures (__CPROVER_return_value == NULL || __CPROVER_return_value == psf->iterator) /*@C13.get_iterator_ret*/
__CPROVER_ensures ((__CPROVER_return_value != NULL && marker_str != NULL) ==>
					((uint64_t) psf->iterator->hash == KEY (marker_str) && psf->iterator->current < psf->rchunks.used
					 && psf->rchunks.chunks [psf->iterator->current].hash == (uint64_t) psf->iterator->hash)) /*@C13.iterator_carries_the_key_of_the_chunk_it_points_at*/
__CPROVER_ensures ((__CPROVER_return_value != NULL && marker_str != NULL) ==> psf->iterator->id_size == (unsigned) g_len) /*@C13.iterator_id_size*/
__CPROVER_ensures ((__CPROVER_return_value != NULL && marker_str == NULL) ==> (psf->iterator->current == 0 && psf->rchunks.used > 0)) /*@C13.full_iteration_starts_at_the_first_chunk*/
;

void h_store_str (void)
{	READ_CHUNKS *pchk ; const char *s ; sf_count_t off ; uint32_t len ; int nd ; int64_t hnd ;
	g_len = nd ; g_str_hash = hnd ; g_store_calls = 0 ;
	psf_store_read_chunk_str (pchk, s, off, len) ;
	REACH (g_len > 4, "long identifier") ; REACH (g_len == 3, "three character identifier") ;
	CANARY () ;
}
void h_store_u32 (void)
{	READ_CHUNKS *pchk ; uint32_t m ; sf_count_t off ; uint32_t len ; uint32_t nd ;
	vin_marker = nd ; g_store_calls = 0 ;
	psf_store_read_chunk_u32 (pchk, m, off, len) ;
	CANARY () ;
}
void h_find_str (void)
{	const READ_CHUNKS *pchk ; const char *s ; int nd ; int64_t hnd ;
	GHOST_HAVOC () ; g_len = nd ; g_str_hash = hnd ;
	int r = psf_find_read_chunk_str (pchk, s) ;
	REACH (r > 2, "found behind other chunks") ; REACH (r == -1, "not found") ;
	CANARY () ;
}
void h_get_iterator (void)
{	SF_PRIVATE *psf ; const char *s ; int nd ; int64_t hnd ;
	GHOST_HAVOC () ; g_len = nd ; g_str_hash = hnd ;
	SF_CHUNK_ITERATOR *it = psf_get_chunk_iterator (psf, s) ;
	REACH (it != NULL && s != NULL && g_len == 4, "iterator by four character identifier") ;
	REACH (it != NULL && s == NULL, "full iteration") ;
	CANARY () ;
}
