/* C12 (C19): the string table of src/strings.c.  Plain harness through the REAL psf_store_string / psf_set_string /
** psf_get_string / psf_location_string_count under CBMC's heap model: a history of three set calls with symbolic
** string types (every type but SOFTWARE, whose text the library extends) and symbolic strings, on a write handle
** with symbolic capability flags.  Claims: a string that was accepted is what psf_get_string returns for its type
** -- the latest one when a type is set twice --, strings of other types are not disturbed by later calls (also across
** growth of the storage block), refused calls change nothing, the location count matches the accepted strings.
** Bounded stand-in in two dimensions, both stated: strings of at most 7 characters, histories of 3 calls.
*/
#include "env_pre.h"
#define psf_log_printf(...)		verif_nolog ()
#include "strings.c"
void verif_nolog (void) { }
#include "ghost.h"
#include "env_stubs.h"

char * strstr (const char *h, const char *n) { _Bool b ; return b ? (char *) h : NULL ; }	/* E1: only used for the SOFTWARE type (excluded below) */

static SF_PRIVATE P ;

static int same (const char *a, const char *b)
{	for (int k = 0 ; k < 8 ; k++)
	{	if (a [k] != b [k]) return 0 ;
		if (a [k] == 0) return 1 ;
		} ;
	return 1 ;
}
#define VALID_TYPE(t)	((t) >= SF_STR_FIRST && (t) <= SF_STR_LAST && (t) != SF_STR_SOFTWARE)

void h_strings (void)
{	char s1 [8], s2 [8], s3 [8] ; int t1, t2, t3, flags_nd ; _Bool written_nd ;
	s1 [7] = 0 ; s2 [7] = 0 ; s3 [7] = 0 ;
	__CPROVER_assume (VALID_TYPE (t1) && VALID_TYPE (t2) && VALID_TYPE (t3)) ;
	P.file.mode = SFM_WRITE ;
	P.strings.flags = flags_nd & (SF_STR_ALLOW_START | SF_STR_ALLOW_END) ;
	P.have_written = written_nd ;

	int r1 = psf_set_string (&P, t1, s1) ;
	if (r1 == 0)
		__CPROVER_assert (psf_get_string (&P, t1) != NULL && same (psf_get_string (&P, t1), s1), "an accepted string is returned for its type") ; /*@C12.accepted_string_is_returned*/
	else
		__CPROVER_assert (psf_get_string (&P, t1) == NULL && P.strings.storage_used == 0, "a refused string leaves the table empty") ; /*@C12.refused_string_changes_nothing*/

	int r2 = psf_set_string (&P, t2, s2) ;
	if (r2 == 0)
		__CPROVER_assert (psf_get_string (&P, t2) != NULL && same (psf_get_string (&P, t2), s2), "the latest accepted string of a type is returned") ; /*@C12.latest_string_of_a_type_wins*/
	if (r1 == 0 && t1 != t2)
		__CPROVER_assert (psf_get_string (&P, t1) != NULL && same (psf_get_string (&P, t1), s1), "a later call for another type does not disturb the string") ; /*@C12.other_types_not_disturbed*/
	if (r1 == 0 && r2 != 0 && t1 == t2)
		__CPROVER_assert (psf_get_string (&P, t1) == NULL || same (psf_get_string (&P, t1), s1), "a refused replacement does not install anything else") ; /*@C12.refused_string_changes_nothing*/

	int r3 = psf_set_string (&P, t3, s3) ;
	if (r3 == 0)
		__CPROVER_assert (psf_get_string (&P, t3) != NULL && same (psf_get_string (&P, t3), s3), "the latest accepted string of a type is returned (third call)") ; /*@C12.latest_string_of_a_type_wins*/
	if (r2 == 0 && t2 != t3)
		__CPROVER_assert (psf_get_string (&P, t2) != NULL && same (psf_get_string (&P, t2), s2), "strings survive later calls and storage growth") ; /*@C12.other_types_not_disturbed*/
	if (r1 == 0 && t1 != t2 && t1 != t3)
		__CPROVER_assert (psf_get_string (&P, t1) != NULL && same (psf_get_string (&P, t1), s1), "the first string survives two later calls") ; /*@C12.other_types_not_disturbed*/

	/* location count: one entry per distinct type that holds an accepted string */
	if (r1 == 0 && r2 == 0 && r3 == 0 && t1 != t2 && t1 != t3 && t2 != t3)
		__CPROVER_assert (psf_location_string_count (&P, SF_STR_LOCATE_START) + psf_location_string_count (&P, SF_STR_LOCATE_END) == 3, "three distinct accepted strings are counted once each") ; /*@C12.location_count*/
	if (r1 == 0 && r2 == 0 && r3 == 0 && t1 == t2 && t2 == t3)
		__CPROVER_assert (psf_location_string_count (&P, SF_STR_LOCATE_START) + psf_location_string_count (&P, SF_STR_LOCATE_END) == 1, "a type set three times is counted once") ; /*@C12.location_count*/
	__CPROVER_assert (P.strings.storage_used <= P.strings.storage_len, "storage accounting") ; /*@C12.storage_accounting*/

	P.file.mode = SFM_READ ;
	__CPROVER_assert (psf_set_string (&P, t1, s1) == SFE_STR_NOT_WRITE, "setting a string on a read handle is refused") ; /*@C09.set_string_on_read_handle_refused*/
	REACH (r1 == 0 && r2 == 0 && r3 == 0 && t1 == t3 && t1 != t2, "a type replaced after another type was set") ;
	REACH (r1 != 0, "refused") ;
	free (P.strings.storage) ;
	CANARY () ;
}
