/* C06: the read-mode seek of the PAF24 and SDS block codecs (src/paf.c, src/sds.c).  As for the ADPCM codecs
** (ima_seek.harness.c): a successful seek to frame k leaves the block buffer holding the block that contains k
** (ghost g_loaded_pos: the byte position the block reader was run at), the index inside the block at k's offset,
** the block counter behind that block; a partly filled write block is flushed first; out-of-range targets are refused
** with an error.  Block geometry enumerated by -D, everything else symbolic.  The specification does not divide:
** ghost quotient / remainder vin_q, vin_r with vin_offset == vin_q * SPB + vin_r.
*/
#include "env_pre.h"
#define psf_log_printf(...)		verif_nolog ()
#ifdef LAYOUT_PAF
#include "paf.c"
#define PRIV_T		PAF24_PRIVATE
#define SPB			PAF24_SAMPLES_PER_BLOCK
#define BLOCKBYTES	((sf_count_t) PAF24_BLOCK_SIZE * CH)
#define SEEK_FN		paf24_seek
#else
#include "sds.c"
#define PRIV_T		SDS_PRIVATE
#define SPB			40				/* 16 bit samples: 120 data bytes / 3 */
#define BLOCKBYTES	((sf_count_t) SDS_BLOCK_SIZE)
#define SEEK_FN		sds_seek
#endif
void verif_nolog (void) { }
#include "ghost.h"
#include "env_stubs.h"
#ifndef CH
#define CH 1
#endif

sf_count_t g_file_pos, g_loaded_pos ; int g_reader_calls, g_writer_calls, g_seek_fails ;
sf_count_t vin_offset, vin_dataoffset, vin_q, vin_r ; int vin_mode, vin_wcount ;

sf_count_t psf_fseek (SF_PRIVATE *psf, sf_count_t offset, int whence)
__CPROVER_requires (__CPROVER_r_ok (psf, sizeof (SF_PRIVATE)) && whence == SEEK_SET && 0 <= offset && offset <= (1LL << 50))
__CPROVER_assigns (g_file_pos, g_seek_fails, psf->error)
#ifdef LAYOUT_PAF
/* paf24_seek does not look at the result of psf_fseek: the unit assumes repositioning succeeds (see not_decided) */
__CPROVER_ensures (__CPROVER_return_value == offset && g_file_pos == offset && g_seek_fails == __CPROVER_old (g_seek_fails))
#else
__CPROVER_ensures ((__CPROVER_return_value == offset && g_file_pos == offset && g_seek_fails == __CPROVER_old (g_seek_fails))
	|| (__CPROVER_return_value != offset && g_seek_fails == __CPROVER_old (g_seek_fails) + 1 && 0 <= g_file_pos && g_file_pos <= (1LL << 50)))
#endif
;
#define PRIV	((PRIV_T *) psf->codec_data)
/* the block reader: loads the block at the current file position */
static int block_reader_c (SF_PRIVATE *psf, PRIV_T *p)
__CPROVER_requires (__CPROVER_r_ok (psf, sizeof (SF_PRIVATE)) && __CPROVER_w_ok (p, sizeof (PRIV_T)) && 0 <= p->read_block && p->read_block <= (1 << 28) && 0 <= g_file_pos && g_file_pos <= (1LL << 50))
__CPROVER_assigns (p->read_block, p->read_count, g_loaded_pos, g_file_pos, g_reader_calls, psf->error)
__CPROVER_ensures (p->read_block == __CPROVER_old (p->read_block) + 1 && p->read_count == 0)
__CPROVER_ensures (g_loaded_pos == __CPROVER_old (g_file_pos) && g_file_pos == __CPROVER_old (g_file_pos) + BLOCKBYTES && g_reader_calls == __CPROVER_old (g_reader_calls) + 1)
;
/* the block writer: emits the partly filled block */
static int block_writer_c (SF_PRIVATE *psf, PRIV_T *p)
__CPROVER_requires (__CPROVER_r_ok (psf, sizeof (SF_PRIVATE)) && __CPROVER_w_ok (p, sizeof (PRIV_T)))
__CPROVER_assigns (p->write_block, p->write_count, g_file_pos, g_writer_calls, psf->error)
__CPROVER_ensures (p->write_count == 0 && g_writer_calls == __CPROVER_old (g_writer_calls) + 1)
;
#ifdef LAYOUT_PAF
#define paf24_read_block_c	block_reader_c
static int paf24_read_block (SF_PRIVATE *psf, PAF24_PRIVATE *p)
__CPROVER_requires (__CPROVER_r_ok (psf, sizeof (SF_PRIVATE)) && __CPROVER_w_ok (p, sizeof (PRIV_T)) && 0 <= p->read_block && p->read_block <= (1 << 28) && 0 <= g_file_pos && g_file_pos <= (1LL << 50))
__CPROVER_assigns (p->read_block, p->read_count, g_loaded_pos, g_file_pos, g_reader_calls, psf->error)
__CPROVER_ensures (p->read_block == __CPROVER_old (p->read_block) + 1 && p->read_count == 0)
__CPROVER_ensures (g_loaded_pos == __CPROVER_old (g_file_pos) && g_file_pos == __CPROVER_old (g_file_pos) + BLOCKBYTES && g_reader_calls == __CPROVER_old (g_reader_calls) + 1)
;
static int paf24_write_block (SF_PRIVATE *psf, PAF24_PRIVATE *p)
__CPROVER_requires (__CPROVER_r_ok (psf, sizeof (SF_PRIVATE)) && __CPROVER_w_ok (p, sizeof (PRIV_T)))
__CPROVER_assigns (p->write_block, p->write_count, g_file_pos, g_writer_calls, psf->error)
__CPROVER_ensures (p->write_count == 0 && g_writer_calls == __CPROVER_old (g_writer_calls) + 1)
;
#endif

static sf_count_t SEEK_FN (SF_PRIVATE *psf, int mode, sf_count_t offset)
__CPROVER_requires (__CPROVER_is_fresh (psf, sizeof (SF_PRIVATE)) && __CPROVER_is_fresh (psf->codec_data, sizeof (PRIV_T)))
#ifdef LAYOUT_PAF
__CPROVER_requires (PRIV->channels == CH && PRIV->blocksize == PAF24_BLOCK_SIZE * CH && 0 <= PRIV->sample_count && PRIV->sample_count <= (1LL << 30))
#else
__CPROVER_requires (PRIV->samplesperblock == SPB && 0 <= PRIV->total_blocks && PRIV->total_blocks <= (1 << 24) && 0 <= psf->sf.frames && psf->sf.frames <= (1LL << 30) && 0 <= psf->datalength)
__CPROVER_requires (__CPROVER_obeys_contract (PRIV->reader, block_reader_c) && __CPROVER_obeys_contract (PRIV->writer, block_writer_c))
#endif
__CPROVER_requires (0 <= psf->dataoffset && psf->dataoffset <= (1LL << 40) && psf->dataoffset == vin_dataoffset && psf->error == 0)
__CPROVER_requires (0 <= PRIV->write_count && PRIV->write_count == vin_wcount && 0 <= PRIV->read_block && PRIV->read_block <= (1 << 24))
/* targets up to 2^24 frames: beyond about 2 GiB of audio the int products block * blocksize in these functions overflow (seen, see not_decided) */
__CPROVER_requires (0 <= offset && offset <= (1LL << 24) && offset == vin_offset && mode == SFM_READ && mode == vin_mode)
__CPROVER_requires (0 <= vin_q && vin_q <= (1LL << 30) && 0 <= vin_r && vin_r < SPB && vin_offset == vin_q * SPB + vin_r)
__CPROVER_requires (g_reader_calls == 0 && g_writer_calls == 0 && g_seek_fails == 0 && 0 <= g_file_pos && g_file_pos <= (1LL << 50))
__CPROVER_assigns (psf->error, g_file_pos, g_loaded_pos, g_reader_calls, g_writer_calls, g_seek_fails, PRIV->read_block, PRIV->read_count, PRIV->write_block, PRIV->write_count)
__CPROVER_ensures (__CPROVER_return_value == vin_offset || __CPROVER_return_value == PSF_SEEK_ERROR) /*@C06.codec_seek_returns_target_or_error*/
__CPROVER_ensures (__CPROVER_return_value == PSF_SEEK_ERROR ==> psf->error != 0) /*@C06.seek_failure_sets_error*/
__CPROVER_ensures (__CPROVER_return_value != PSF_SEEK_ERROR ==>
	(g_reader_calls == 1 && g_loaded_pos == vin_dataoffset + vin_q * BLOCKBYTES && PRIV->read_count == vin_r && PRIV->read_block == vin_q + 1)) /*@C06.block_buffer_holds_the_block_of_the_target_frame*/
__CPROVER_ensures ((__CPROVER_return_value != PSF_SEEK_ERROR && vin_wcount > 0) ==> (g_writer_calls == 1 && PRIV->write_count == 0)) /*@C08.partly_filled_write_block_flushed_before_reading*/ /*@C06.partly_filled_write_block_flushed_before_reading*/
;

void h_blockseek (void)
{	SF_PRIVATE *psf ; int mode ; sf_count_t offset ;
#ifndef LAYOUT_PAF
	void *keep_c [] = { (void *) block_reader_c, (void *) block_writer_c } ; (void) keep_c ;
#endif
	{ sf_count_t a [6] ; int b [2] ; vin_offset = a [0] ; vin_dataoffset = a [1] ; g_file_pos = a [2] ; g_loaded_pos = a [3] ; vin_q = a [4] ; vin_r = a [5] ; vin_mode = b [0] ; vin_wcount = b [1] ; }
	g_reader_calls = 0 ; g_writer_calls = 0 ; g_seek_fails = 0 ;
	sf_count_t r = SEEK_FN (psf, mode, offset) ;
	REACH (r > SPB && r % SPB != 0, "seek into the middle of a later block") ;
	CANARY () ;
}
