/* C18 / C17: psf_calc_signal_max and psf_calc_max_all_channels (src/command.c).
** The public functions they call (sf_command, sf_seek, sf_read_double) are replaced by the clauses
** proved for them in the sndfile.c units.  Claims: the result is >= the magnitude of every sample
** the reads delivered (ghost stream item), the normalisation setting and the write position are
** restored, the read position is restored (read mode), the scan terminates.
*/
#include "env_pre.h"
#include "command.c"
#include "ghost.h"

#ifndef CH
#define CH 2
#endif
#define PSF ((SF_PRIVATE *) sndfile)
#define FRAMES_MAX (1LL << 40)

sf_count_t vin_rc, vin_wc, vin_frames ;
int vin_mode, vin_norm_double, vin_normalize, vin_error, vin_seekable ;

/* ghost stream: item number g_n (counted from the start of the scan) has the value g_val */
struct calc_ghost
{	sf_count_t delivered ;	/* items delivered by sf_read_double so far (since the rewind) */
	sf_count_t remaining ;	/* environment: finite input, every non-empty read consumes some of it */
	int seek_failed ;
	unsigned reads ;
} gc ;
sf_count_t g_n ;
double g_val ;

int sf_command (SNDFILE *sndfile, int command, void *data, int datasize)
__CPROVER_requires (sndfile != NULL && __CPROVER_r_ok (sndfile, sizeof (SF_PRIVATE)))
__CPROVER_requires (command == SFC_GET_NORM_DOUBLE || command == SFC_SET_NORM_DOUBLE)
__CPROVER_assigns (PSF->norm_double, PSF->error)
__CPROVER_ensures (PSF->error == 0)
__CPROVER_ensures (command == SFC_GET_NORM_DOUBLE ==> (__CPROVER_return_value == __CPROVER_old (PSF->norm_double) && PSF->norm_double == __CPROVER_old (PSF->norm_double)))
__CPROVER_ensures (command == SFC_SET_NORM_DOUBLE ==> (__CPROVER_return_value == __CPROVER_old (PSF->norm_double) && PSF->norm_double == (datasize ? SF_TRUE : SF_FALSE)))
;

/* sf_seek as proved in unit sndfile.sf_seek, for the three calls made here */
sf_count_t sf_seek (SNDFILE *sndfile, sf_count_t offset, int whence)
__CPROVER_requires (sndfile != NULL && __CPROVER_r_ok (sndfile, sizeof (SF_PRIVATE)))
__CPROVER_requires (whence == SEEK_CUR || whence == SEEK_SET || whence == (SEEK_SET | SFM_READ))
__CPROVER_assigns (PSF->error, PSF->read_current, PSF->write_current, PSF->last_op, __CPROVER_object_whole (&gc))
__CPROVER_ensures (gc.reads == __CPROVER_old (gc.reads) && gc.remaining == __CPROVER_old (gc.remaining))
__CPROVER_ensures ((whence == SEEK_CUR && offset == 0 && PSF->file.mode == SFM_READ) ==>
	(__CPROVER_return_value == __CPROVER_old (PSF->read_current) && PSF->read_current == __CPROVER_old (PSF->read_current) && PSF->write_current == __CPROVER_old (PSF->write_current)
	 && gc.delivered == __CPROVER_old (gc.delivered) && gc.seek_failed == __CPROVER_old (gc.seek_failed)))
__CPROVER_ensures ((whence == SEEK_CUR && offset == 0 && PSF->file.mode == SFM_WRITE) ==>
	(__CPROVER_return_value == __CPROVER_old (PSF->write_current) && PSF->read_current == __CPROVER_old (PSF->read_current) && PSF->write_current == __CPROVER_old (PSF->write_current)
	 && gc.delivered == __CPROVER_old (gc.delivered) && gc.seek_failed == __CPROVER_old (gc.seek_failed)))
/* read/write mode: the behaviour proved in the sf_seek unit (a plain tell reports the write position and moves the read position onto it, known finding KF2) */
__CPROVER_ensures ((whence == SEEK_CUR && offset == 0 && PSF->file.mode == SFM_RDWR) ==>
	((__CPROVER_return_value == __CPROVER_old (PSF->write_current) && PSF->read_current == __CPROVER_old (PSF->write_current) && PSF->write_current == __CPROVER_old (PSF->write_current))
	 || (__CPROVER_return_value == -1 && PSF->error != 0 && PSF->read_current == __CPROVER_old (PSF->read_current) && PSF->write_current == __CPROVER_old (PSF->write_current)))
	&& gc.delivered == __CPROVER_old (gc.delivered) && (gc.seek_failed == __CPROVER_old (gc.seek_failed) || (__CPROVER_return_value == -1 && gc.seek_failed == 1)))
__CPROVER_ensures ((whence != SEEK_CUR && __CPROVER_return_value == -1) ==>
	(PSF->error != 0 && PSF->read_current == __CPROVER_old (PSF->read_current) && PSF->write_current == __CPROVER_old (PSF->write_current) && gc.seek_failed == 1
	 && gc.delivered == __CPROVER_old (gc.delivered)))
__CPROVER_ensures ((whence != SEEK_CUR && __CPROVER_return_value != -1) ==> (__CPROVER_return_value == offset && gc.seek_failed == __CPROVER_old (gc.seek_failed) && gc.delivered == 0
	&& ((whence == SEEK_SET && PSF->file.mode == SFM_RDWR) ? (PSF->read_current == offset && PSF->write_current == offset)
	    : ((whence == (SEEK_SET | SFM_READ) || PSF->file.mode == SFM_READ) ? (PSF->read_current == offset && PSF->write_current == __CPROVER_old (PSF->write_current))
	       : (PSF->write_current == offset && PSF->read_current == __CPROVER_old (PSF->read_current))))))
;

/* sf_read_double as proved in the wrapper units + the environment fact that input is finite */
sf_count_t sf_read_double (SNDFILE *sndfile, double *ptr, sf_count_t items)
__CPROVER_requires (sndfile != NULL && __CPROVER_r_ok (sndfile, sizeof (SF_PRIVATE)))
__CPROVER_requires (items > 0 && items <= 1024 && items % CH == 0)
__CPROVER_requires (__CPROVER_w_ok (ptr, (size_t) items * 8))
__CPROVER_requires (gc.delivered >= 0 && gc.delivered <= (1LL << 42) && gc.remaining >= 0 && gc.remaining <= (1LL << 42) && gc.delivered + gc.remaining <= (1LL << 41)
	&& 0 <= PSF->read_current && PSF->read_current <= FRAMES_MAX)
__CPROVER_assigns (PSF->error, PSF->read_current, PSF->last_op, __CPROVER_object_whole (&gc), __CPROVER_object_from (ptr))
__CPROVER_ensures (0 <= __CPROVER_return_value && __CPROVER_return_value <= items && __CPROVER_return_value % CH == 0)
__CPROVER_ensures (gc.delivered == __CPROVER_old (gc.delivered) + __CPROVER_return_value && gc.reads == __CPROVER_old (gc.reads) + 1 && gc.seek_failed == __CPROVER_old (gc.seek_failed))
__CPROVER_ensures (gc.remaining >= 0 && gc.remaining <= __CPROVER_old (gc.remaining) - __CPROVER_return_value)
__CPROVER_ensures (PSF->read_current >= __CPROVER_old (PSF->read_current) && PSF->read_current <= __CPROVER_old (PSF->read_current) + __CPROVER_return_value && PSF->read_current <= FRAMES_MAX)
__CPROVER_ensures ((__CPROVER_old (gc.delivered) <= g_n && g_n < __CPROVER_old (gc.delivered) + __CPROVER_return_value) ==> ptr [g_n - __CPROVER_old (gc.delivered)] == g_val)
;

#define HANDLE_OK	(__CPROVER_is_fresh (psf, sizeof (SF_PRIVATE)) && psf->sf.channels == CH \
	&& 0 <= psf->sf.frames && psf->sf.frames <= FRAMES_MAX && 0 <= psf->read_current && psf->read_current <= FRAMES_MAX \
	&& 0 <= psf->write_current && psf->write_current <= FRAMES_MAX \
	&& (psf->file.mode == SFM_READ || psf->file.mode == SFM_RDWR) \
	&& psf->read_current == vin_rc && psf->write_current == vin_wc && psf->sf.frames == vin_frames && psf->file.mode == vin_mode \
	&& psf->norm_double == vin_norm_double && (vin_norm_double == SF_TRUE || vin_norm_double == SF_FALSE) && psf->error == vin_error && psf->sf.seekable == vin_seekable \
	&& gc.remaining >= 0 && gc.remaining <= (1LL << 40) && gc.delivered == 0 && gc.seek_failed == 0 && gc.reads == 0 && g_val == g_val)

double psf_calc_signal_max (SF_PRIVATE *psf, int normalize)
__CPROVER_requires (HANDLE_OK && normalize == vin_normalize)
__CPROVER_assigns (psf->error, psf->norm_double, psf->read_current, psf->write_current, psf->last_op, __CPROVER_object_whole (&gc))
__CPROVER_ensures ((vin_seekable && psf->read_double != NULL) ==> psf->norm_double == vin_norm_double) /*@C18.calc_restores_normalisation*/ /*@C17.calc_restores_normalisation*/
__CPROVER_ensures ((vin_seekable && psf->read_double != NULL && !gc.seek_failed) ==> psf->write_current == vin_wc) /*@C17.calc_restores_write_position*/ /*@C18.calc_restores_write_position*/
__CPROVER_ensures ((vin_seekable && psf->read_double != NULL && !gc.seek_failed && vin_mode == SFM_READ) ==> psf->read_current == vin_rc) /*@C18.calc_restores_read_position*/ /*@C17.calc_restores_read_position*/
__CPROVER_ensures ((vin_seekable && psf->read_double != NULL && !gc.seek_failed && vin_mode == SFM_RDWR) ==> psf->read_current == vin_rc) /*@C18.calc_restores_read_position_rdwr*/
#ifndef NO_MAX_CLAUSE
__CPROVER_ensures ((vin_seekable && psf->read_double != NULL && !gc.seek_failed && 0 <= g_n && g_n < gc.delivered) ==> __CPROVER_return_value >= __CPROVER_fabs (g_val)) /*@C18.calc_max_dominates_every_delivered_sample*/
#endif
__CPROVER_ensures (__CPROVER_return_value >= 0.0) /*@C18.calc_max_not_negative*/
__CPROVER_ensures (!vin_seekable ==> (__CPROVER_return_value == 0.0 && psf->error == SFE_NOT_SEEKABLE && psf->read_current == vin_rc && psf->norm_double == vin_norm_double)) /*@C09.calc_not_seekable*/
;

/* the per-channel variant: peaks [c] dominates every delivered sample of channel c (item n belongs to channel n % CH) */
int psf_calc_max_all_channels (SF_PRIVATE *psf, double *peaks, int normalize)
__CPROVER_requires (HANDLE_OK && normalize == vin_normalize && __CPROVER_is_fresh (peaks, CH * 8))
__CPROVER_assigns (psf->error, psf->norm_double, psf->read_current, psf->write_current, psf->last_op, __CPROVER_object_whole (&gc), __CPROVER_object_whole (peaks))
__CPROVER_ensures ((vin_seekable && psf->read_double != NULL) ==> psf->norm_double == vin_norm_double) /*@C18.calc_restores_normalisation*/ /*@C17.calc_restores_normalisation*/
__CPROVER_ensures ((vin_seekable && psf->read_double != NULL && !gc.seek_failed) ==> psf->write_current == vin_wc) /*@C17.calc_restores_write_position*/ /*@C18.calc_restores_write_position*/
__CPROVER_ensures ((vin_seekable && psf->read_double != NULL && !gc.seek_failed && vin_mode == SFM_READ) ==> psf->read_current == vin_rc) /*@C18.calc_restores_read_position*/ /*@C17.calc_restores_read_position*/
#ifndef NO_MAX_CLAUSE
__CPROVER_ensures ((vin_seekable && psf->read_double != NULL && !gc.seek_failed && 0 <= g_n && g_n < gc.delivered) ==> peaks [g_n % CH] >= __CPROVER_fabs (g_val)) /*@C18.calc_channel_max_dominates_every_delivered_sample_of_the_channel*/
#endif
__CPROVER_ensures (!vin_seekable ==> (__CPROVER_return_value == SFE_NOT_SEEKABLE && psf->error == SFE_NOT_SEEKABLE && psf->read_current == vin_rc && psf->norm_double == vin_norm_double)) /*@C09.calc_not_seekable*/
;
void h_calc_max_all (void)
{	SF_PRIVATE *psf ; int normalize ; double *peaks ;
	{ sf_count_t a [4] ; int b [6] ; double d ; vin_rc = a [0] ; vin_wc = a [1] ; vin_frames = a [2] ; g_n = a [3] ; vin_mode = b [0] ; vin_norm_double = b [1] ;
	  vin_normalize = b [2] ; vin_error = b [3] ; vin_seekable = b [4] ; g_val = d ; gc.remaining = (a [3] < 0 || a [3] > (1LL << 40)) ? 0 : a [3] ; gc.delivered = 0 ; gc.seek_failed = 0 ; gc.reads = 0 ; }
	int r = psf_calc_max_all_channels (psf, peaks, normalize) ;
	REACH (gc.reads > 2, "several chunks scanned") ;
	CANARY () ;
}

void h_calc_signal_max (void)
{	SF_PRIVATE *psf ; int normalize ;
	{ sf_count_t a [4] ; int b [6] ; double d ; vin_rc = a [0] ; vin_wc = a [1] ; vin_frames = a [2] ; g_n = a [3] ; vin_mode = b [0] ; vin_norm_double = b [1] ;
	  vin_normalize = b [2] ; vin_error = b [3] ; vin_seekable = b [4] ; g_val = d ; gc.remaining = (a [3] < 0 || a [3] > (1LL << 40)) ? 0 : a [3] ; gc.delivered = 0 ; gc.seek_failed = 0 ; gc.reads = 0 ; }
	double r = psf_calc_signal_max (psf, normalize) ;
	REACH (gc.reads > 2 && r > 1.0, "several chunks scanned") ;
	REACH (gc.seek_failed, "a seek failed") ;
	CANARY () ;
}
