/* C12 / C17: broadcast_var_set / broadcast_var_get (src/broadcast.c) and cart_var_set / cart_var_get
** (src/cart.c): the callees of sf_command (SFC_SET/GET_BROADCAST_INFO, SFC_SET/GET_CART_INFO).
** `info` is NULL or a heap block of EXACTLY datasize bytes: pointer checks are "never more than datasize
** bytes".  The stored text keeps its length: the recorded (even) size covers the whole stored string. */
#include "env_pre.h"
#define strlen(s)		verif_strlen (s)
size_t verif_strlen (const char *s) ;
#include METADATA_FILE
#include "ghost.h"
#include "env_stubs.h"

size_t g_last_strlen, vin_datasize ;
/* E1: strlen of the library's own 16 KiB text buffer: some k below the buffer size (the buffer is terminated by
** psf_strlcpy_crlf / psf_strlcat, whose contracts are stated below) */
size_t verif_strlen (const char *s)
{	size_t k_nd ; size_t k = k_nd ;
	__CPROVER_assume (k < TEXT_MAX) ;
	__CPROVER_assert (__CPROVER_r_ok (s, k + 1), "E1 strlen: the string lies inside its buffer") ;
	g_last_strlen = k ;
	return k ;
}
void psf_strlcpy_crlf (char *dest, const char *src, size_t destmax, size_t srcmax)
__CPROVER_requires (destmax > 0 && __CPROVER_w_ok (dest, destmax))
__CPROVER_requires (srcmax == 0 || __CPROVER_r_ok (src, srcmax)) /*@C17.text_is_read_within_datasize*/
__CPROVER_assigns (__CPROVER_object_from (dest))
__CPROVER_ensures (1)
;
void psf_strlcat (char *dest, size_t n, const char *src)
__CPROVER_requires (n > 0 && __CPROVER_w_ok (dest, n))
__CPROVER_assigns (__CPROVER_object_from (dest))
__CPROVER_ensures (1)
;
#ifdef UNIT_BROADCAST
static int gen_coding_history (char * added_history, int added_history_max, const SF_INFO * psfinfo)
__CPROVER_requires (added_history_max > 0 && __CPROVER_w_ok (added_history, (size_t) added_history_max))
__CPROVER_assigns (__CPROVER_object_from (added_history))
__CPROVER_ensures (1)
;
#define SET_FN		broadcast_var_set
#define GET_FN		broadcast_var_get
#define INFO_T		SF_BROADCAST_INFO
#define BIG_T		SF_BROADCAST_INFO_16K
#define STORE(psf)	((psf)->broadcast_16k)
#define TEXT_SIZE(p)	((p)->coding_history_size)
#endif
#ifdef UNIT_CART
#define SET_FN		cart_var_set
#define GET_FN		cart_var_get
#define INFO_T		SF_CART_INFO
#define BIG_T		SF_CART_INFO_16K
#define STORE(psf)	((psf)->cart_16k)
#define TEXT_SIZE(p)	((p)->tag_text_size)
#endif

int SET_FN (SF_PRIVATE *psf, const INFO_T * info, size_t datasize)
__CPROVER_requires (__CPROVER_is_fresh (psf, sizeof (SF_PRIVATE)))
__CPROVER_requires (STORE (psf) == NULL || __CPROVER_is_fresh (STORE (psf), sizeof (BIG_T)))
__CPROVER_requires (datasize <= 70000 && datasize == vin_datasize)
__CPROVER_requires (info == NULL || __CPROVER_is_fresh (info, datasize))
__CPROVER_assigns (psf->error, STORE (psf), g_last_strlen; STORE (psf) != NULL: __CPROVER_object_whole (STORE (psf)))
__CPROVER_ensures (__CPROVER_return_value == SF_TRUE || __CPROVER_return_value == SF_FALSE) /*@C17.defined_return_value*/
__CPROVER_ensures (__CPROVER_return_value == SF_TRUE ==> (STORE (psf) != NULL && TEXT_SIZE (STORE (psf)) % 2 == 0
					&& TEXT_SIZE (STORE (psf)) >= g_last_strlen && TEXT_SIZE (STORE (psf)) <= g_last_strlen + 2)) /*@C12.recorded_text_size_is_even_and_covers_the_stored_text*/
__CPROVER_ensures ((__CPROVER_return_value == SF_FALSE && info != NULL) ==> psf->error != 0) /*@C09.rejected_metadata_sets_error*/
;

int GET_FN (SF_PRIVATE *psf, INFO_T * data, size_t datasize)
__CPROVER_requires (__CPROVER_is_fresh (psf, sizeof (SF_PRIVATE)))
__CPROVER_requires (STORE (psf) == NULL || (__CPROVER_is_fresh (STORE (psf), sizeof (BIG_T)) && TEXT_SIZE (STORE (psf)) <= TEXT_MAX))
__CPROVER_requires (datasize <= 70000 && __CPROVER_is_fresh (data, datasize))
__CPROVER_assigns (datasize > 0: __CPROVER_object_whole (data))
__CPROVER_ensures (__CPROVER_return_value == (STORE (psf) != NULL ? SF_TRUE : SF_FALSE)) /*@C12.get_reports_presence*/
;

void h_set (void)
{	SF_PRIVATE *psf ; const INFO_T *info ; size_t datasize ; size_t nd ; vin_datasize = nd ; g_last_strlen = 0 ;
	int r = SET_FN (psf, info, datasize) ;
	REACH (r == SF_TRUE, "accepted") ;
	REACH (r == SF_FALSE && vin_datasize < 100, "rejected: too small") ;
	CANARY () ;
}
void h_get (void)
{	SF_PRIVATE *psf ; INFO_T *data ; size_t datasize ;
	int r = GET_FN (psf, data, datasize) ;
	REACH (r == SF_TRUE, "present") ;
	CANARY () ;
}
