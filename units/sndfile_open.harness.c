/* C14 / C16 / C09: the open entry points sf_open_fd and sf_open_virtual (src/sndfile.c) hand a handle to
** psf_open_file whose descriptor slots say exactly who owns what: a virtual-I/O handle owns no descriptor
** (all three slots are -1, so sf_close can never close a descriptor it did not open); a handle from
** sf_open_fd closes its descriptor at close exactly when close_desc was true; early failures close the
** caller's descriptor exactly when close_desc was true and leave no handle behind.
*/
#include "env_pre.h"
#include "sndfile.c"
#include "ghost.h"
#include "env_stubs.h"

int vin_fd, vin_close_desc, vin_mode ;
unsigned g_close_calls ; int g_closed_fd ;
int g_open_file_calls ;

int close (int fd) { g_close_calls ++ ; g_closed_fd = fd ; int r_nd ; return r_nd ; }

SF_PRIVATE * psf_allocate (void)
__CPROVER_assigns ()
__CPROVER_ensures (__CPROVER_return_value == NULL || (__CPROVER_is_fresh (__CPROVER_return_value, sizeof (SF_PRIVATE))
	&& __CPROVER_return_value->virtual_io == 0 && __CPROVER_return_value->error == 0))	/* calloc'ed */
;
void psf_init_files (SF_PRIVATE *psf)
__CPROVER_requires (__CPROVER_w_ok (psf, sizeof (SF_PRIVATE)))
__CPROVER_assigns (psf->file.filedes, psf->rsrc.filedes, psf->file.savedes)
__CPROVER_ensures (psf->file.filedes == -1 && psf->rsrc.filedes == -1 && psf->file.savedes == -1)
;
void psf_set_file (SF_PRIVATE *psf, int fd)
__CPROVER_requires (__CPROVER_w_ok (psf, sizeof (SF_PRIVATE)))
__CPROVER_assigns (psf->file.filedes)
__CPROVER_ensures (psf->file.filedes == fd)
;
int psf_is_pipe (SF_PRIVATE *psf)
__CPROVER_requires (__CPROVER_r_ok (psf, sizeof (SF_PRIVATE)))
__CPROVER_assigns ()
__CPROVER_ensures (1)
;
sf_count_t psf_ftell (SF_PRIVATE *psf)
__CPROVER_requires (__CPROVER_r_ok (psf, sizeof (SF_PRIVATE)))
__CPROVER_assigns (psf->error, psf->syserr)
__CPROVER_ensures (1)
;
/* the rest of the open path: must be entered with a consistent ownership record */
static SNDFILE * psf_open_file (SF_PRIVATE *psf, SF_INFO *sfinfo)
__CPROVER_requires (__CPROVER_w_ok (psf, sizeof (SF_PRIVATE)))
__CPROVER_requires (psf->rsrc.filedes == -1 && psf->file.savedes == -1) /*@C14.no_descriptor_the_library_did_not_open*/ /*@C16.no_descriptor_the_library_did_not_open*/
__CPROVER_requires (psf->virtual_io ? psf->file.filedes == -1 : (psf->file.filedes == vin_fd && psf->file.do_not_close_descriptor == !vin_close_desc)) /*@C14.descriptor_ownership_recorded*/ /*@C16.descriptor_ownership_recorded*/
__CPROVER_requires (psf->file.mode == vin_mode)
__CPROVER_assigns (g_open_file_calls)
__CPROVER_ensures (g_open_file_calls == __CPROVER_old (g_open_file_calls) + 1)
;

SNDFILE * sf_open_virtual (SF_VIRTUAL_IO *sfvirtual, int mode, SF_INFO *sfinfo, void *user_data)
__CPROVER_requires (__CPROVER_is_fresh (sfvirtual, sizeof (SF_VIRTUAL_IO)) && __CPROVER_is_fresh (sfinfo, sizeof (SF_INFO)) && mode == vin_mode)
__CPROVER_assigns (sf_errno, g_open_file_calls, __CPROVER_object_whole (sf_parselog))
__CPROVER_ensures (g_open_file_calls <= 1 && g_close_calls == 0) /*@C14.virtual_open_closes_nothing*/
__CPROVER_ensures (g_open_file_calls == 0 ==> (__CPROVER_return_value == NULL && sf_errno != 0)) /*@C09.failed_open_returns_null_with_error*/
;

SNDFILE * sf_open_fd (int fd, int mode, SF_INFO *sfinfo, int close_desc)
__CPROVER_requires (__CPROVER_is_fresh (sfinfo, sizeof (SF_INFO)) && fd == vin_fd && close_desc == vin_close_desc && mode == vin_mode && g_close_calls == 0)
__CPROVER_assigns (sf_errno, g_open_file_calls, g_close_calls, g_closed_fd)
__CPROVER_ensures (g_open_file_calls == 0 ==> (__CPROVER_return_value == NULL && sf_errno != 0)) /*@C09.failed_open_returns_null_with_error*/
__CPROVER_ensures ((g_open_file_calls == 0 && vin_close_desc) ==> (g_close_calls == 1 && g_closed_fd == vin_fd)) /*@C14.early_failure_closes_owned_descriptor*/ /*@C16.early_failure_closes_owned_descriptor*/
__CPROVER_ensures ((g_open_file_calls == 1 || !vin_close_desc) ==> g_close_calls == 0) /*@C14.descriptor_not_owned_is_never_closed*/
;

void h_open_virtual (void)
{	SF_VIRTUAL_IO *v ; int mode ; SF_INFO *info ; void *ud ; int nd ; vin_mode = nd ; g_open_file_calls = 0 ; g_close_calls = 0 ;
	sf_open_virtual (v, mode, info, ud) ;
	REACH (g_open_file_calls == 1, "reaches psf_open_file") ;
	CANARY () ;
}
void h_open_fd (void)
{	int fd, mode, cd ; SF_INFO *info ; int a [3] ; vin_fd = a [0] ; vin_close_desc = a [1] ; vin_mode = a [2] ; g_open_file_calls = 0 ; g_close_calls = 0 ;
	sf_open_fd (fd, mode, info, cd) ;
	REACH (g_open_file_calls == 1, "reaches psf_open_file") ;
	REACH (g_close_calls == 1, "early failure with close_desc") ;
	CANARY () ;
}
