/* C18 / C17: psf_get_signal_max and psf_get_max_all_channels (src/command.c), behind SFC_GET_SIGNAL_MAX and
** SFC_GET_MAX_ALL_CHANNELS: the stored per-channel peaks are handed back unchanged, channel by channel, the overall
** maximum dominates every channel's peak, and nothing outside the caller's channels * sizeof (double) bytes is
** written.  Inductive loop contracts, arbitrary channel g_idx (ghost), channel count symbolic.
*/
#include "env_pre.h"
#define psf_log_printf(...)		verif_nolog ()
#include "command.c"
void verif_nolog (void) { }
#include "ghost.h"

int vin_ch ; double vin_val ;
#define PEAKS_OK	(__CPROVER_is_fresh (psf, sizeof (SF_PRIVATE)) && 1 <= psf->sf.channels && psf->sf.channels <= 1024 && psf->sf.channels == vin_ch \
	&& (psf->peak_info == NULL || __CPROVER_is_fresh (psf->peak_info, sizeof (PEAK_INFO) + (size_t) vin_ch * 16)) \
	&& (psf->peak_info == NULL || !(0 <= g_idx && g_idx < vin_ch) || (psf->peak_info->peaks [g_idx].value == vin_val && vin_val == vin_val)))

#ifdef U_ALL
int psf_get_max_all_channels (SF_PRIVATE *psf, double *peaks)
__CPROVER_requires (PEAKS_OK && __CPROVER_is_fresh (peaks, (size_t) vin_ch * 8))
__CPROVER_assigns (__CPROVER_object_whole (peaks))
__CPROVER_ensures (__CPROVER_return_value == (psf->peak_info != NULL ? SF_TRUE : SF_FALSE)) /*@C18.peaks_reported_exactly_when_stored*/
__CPROVER_ensures ((psf->peak_info != NULL && 0 <= g_idx && g_idx < vin_ch) ==> peaks [g_idx] == vin_val) /*@C18.every_channel_peak_handed_back_unchanged*/
;
void h_peak_get (void)
{	SF_PRIVATE *psf ; double *peaks ; { int a ; double d ; vin_ch = a ; vin_val = d ; } GHOST_HAVOC () ;
	int r = psf_get_max_all_channels (psf, peaks) ;
	REACH (r == SF_TRUE && vin_ch > 2, "several channels") ;
	CANARY () ;
}
#endif
#ifdef U_MAX
/* channel count enumerated: every stored peak is a number (not NaN), stated channel by channel */
#define NUM(k)	((k) >= FIX_CH || psf->peak_info->peaks [(k)].value == psf->peak_info->peaks [(k)].value)
int psf_get_signal_max (SF_PRIVATE *psf, double *peak)
__CPROVER_requires (PEAKS_OK && __CPROVER_is_fresh (peak, 8) && vin_ch == FIX_CH)
__CPROVER_requires (psf->peak_info == NULL || (NUM (0) && NUM (1) && NUM (2) && NUM (3) && NUM (4) && NUM (5) && NUM (6) && NUM (7)))
__CPROVER_assigns (*peak)
__CPROVER_ensures (__CPROVER_return_value == (psf->peak_info != NULL ? SF_TRUE : SF_FALSE)) /*@C18.peaks_reported_exactly_when_stored*/
__CPROVER_ensures ((psf->peak_info != NULL && 0 <= g_idx && g_idx < vin_ch) ==> *peak >= vin_val) /*@C18.signal_max_dominates_every_channel_peak*/
;
void h_peak_get (void)
{	SF_PRIVATE *psf ; double *peak ; { int a ; double d ; vin_ch = a ; vin_val = d ; } GHOST_HAVOC () ;
	int r = psf_get_signal_max (psf, peak) ;
	REACH (r == SF_TRUE, "peaks stored") ;
	CANARY () ;
}
#endif
