/* C09 / C13 / C12 / C16: the thin public entry points of src/sndfile.c that forward to the container hooks and to
** the string / chunk / close layers: argument validation first (NULL handle, NULL or data-less chunk descriptor: the
** documented failure value, nothing forwarded, nothing dereferenced), then exactly one forwarded call with the
** caller's arguments, its result returned unchanged.
*/
#include "env_pre.h"
#include "sndfile.c"
#include "ghost.h"
#include "env_stubs.h"

#define PSF ((SF_PRIVATE *) sndfile)
int g_calls, g_ret, g_arg_int ; const void *g_arg_p1, *g_arg_p2 ; void *g_ret_p ;
int vin_valid ;

int psf_file_valid (SF_PRIVATE *psf)
__CPROVER_requires (__CPROVER_r_ok (psf, sizeof (SF_PRIVATE)))
__CPROVER_assigns ()
__CPROVER_ensures (__CPROVER_return_value == (psf->file.filedes >= 0 ? SF_TRUE : SF_FALSE))
;
#define HANDLE_VALID(p)	((p)->Magick == SNDFILE_MAGICK && ((p)->virtual_io != SF_FALSE || (p)->file.filedes >= 0))
#define HANDLE(s)		((s) == NULL || (__CPROVER_is_fresh ((s), sizeof (SF_PRIVATE)) && HANDLE_VALID ((SF_PRIVATE *) (s)) == (vin_valid != 0)))

int psf_close (SF_PRIVATE *psf)
__CPROVER_requires (__CPROVER_w_ok (psf, sizeof (SF_PRIVATE)))
__CPROVER_assigns (g_calls, g_ret, g_arg_p1)
__CPROVER_frees (psf)
__CPROVER_ensures (g_calls == __CPROVER_old (g_calls) + 1 && g_ret == __CPROVER_return_value && g_arg_p1 == psf)
;
int psf_set_string (SF_PRIVATE *psf, int str_type, const char *str)
__CPROVER_requires (__CPROVER_r_ok (psf, sizeof (SF_PRIVATE)))
__CPROVER_assigns (g_calls, g_ret, g_arg_p1, g_arg_p2, g_arg_int)
__CPROVER_ensures (g_calls == __CPROVER_old (g_calls) + 1 && g_ret == __CPROVER_return_value && g_arg_p1 == psf && g_arg_p2 == str && g_arg_int == str_type)
;
const char * psf_get_string (SF_PRIVATE *psf, int str_type)
__CPROVER_requires (__CPROVER_r_ok (psf, sizeof (SF_PRIVATE)))
__CPROVER_assigns (g_calls, g_ret_p, g_arg_p1, g_arg_int)
__CPROVER_ensures (g_calls == __CPROVER_old (g_calls) + 1 && g_ret_p == (void *) __CPROVER_return_value && g_arg_p1 == psf && g_arg_int == str_type)
;
SF_CHUNK_ITERATOR * psf_get_chunk_iterator (SF_PRIVATE * psf, const char * marker_str)
__CPROVER_requires (__CPROVER_r_ok (psf, sizeof (SF_PRIVATE)))
__CPROVER_assigns (g_calls, g_ret_p, g_arg_p1, g_arg_p2)
__CPROVER_ensures (g_calls == __CPROVER_old (g_calls) + 1 && g_ret_p == (void *) __CPROVER_return_value && g_arg_p1 == psf && g_arg_p2 == marker_str)
;
/* container hooks */
static int set_chunk_c (SF_PRIVATE *psf, const SF_CHUNK_INFO *chunk_info)
__CPROVER_requires (__CPROVER_r_ok (psf, sizeof (SF_PRIVATE)) && chunk_info != NULL && chunk_info->data != NULL)
__CPROVER_assigns (g_calls, g_ret, g_arg_p1, g_arg_p2)
__CPROVER_ensures (g_calls == __CPROVER_old (g_calls) + 1 && g_ret == __CPROVER_return_value && g_arg_p1 == psf && g_arg_p2 == chunk_info)
;
static int get_chunk_c (SF_PRIVATE *psf, const SF_CHUNK_ITERATOR *iterator, SF_CHUNK_INFO *chunk_info)
__CPROVER_requires (__CPROVER_r_ok (psf, sizeof (SF_PRIVATE)) && chunk_info != NULL && iterator != NULL)
__CPROVER_assigns (g_calls, g_ret, g_arg_p1, g_arg_p2)
__CPROVER_ensures (g_calls == __CPROVER_old (g_calls) + 1 && g_ret == __CPROVER_return_value && g_arg_p1 == iterator && g_arg_p2 == chunk_info)
;

#ifdef U_CLOSE
int sf_close (SNDFILE *sndfile)
__CPROVER_requires (HANDLE (sndfile) && g_calls == 0)
__CPROVER_assigns (sf_errno, g_calls, g_ret, g_arg_p1; sndfile != NULL: PSF->error)
__CPROVER_frees (sndfile)
__CPROVER_ensures ((sndfile != NULL && vin_valid) ==> (g_calls == 1 && g_arg_p1 == sndfile && __CPROVER_return_value == g_ret)) /*@C16.close_releases_the_handle_through_psf_close*/ /*@C09.close_returns_the_result_of_the_release*/
__CPROVER_ensures ((sndfile == NULL || !vin_valid) ==> g_calls == 0) /*@C09.invalid_handle_is_not_released*/ /*@C16.invalid_handle_is_not_released*/
__CPROVER_ensures (sndfile == NULL ==> sf_errno == SFE_BAD_SNDFILE_PTR) /*@C09.null_handle_sets_error*/
;
void h_api (void) { SNDFILE *sndfile ; int v ; vin_valid = v ; g_calls = 0 ; sf_close (sndfile) ; REACH (g_calls == 1, "handle released") ; CANARY () ; }
#endif

#ifdef U_SET_STRING
int sf_set_string (SNDFILE *sndfile, int str_type, const char *str)
__CPROVER_requires (HANDLE (sndfile) && g_calls == 0)
__CPROVER_assigns (sf_errno, g_calls, g_ret, g_arg_p1, g_arg_p2, g_arg_int; sndfile != NULL: PSF->error)
__CPROVER_ensures ((sndfile != NULL && vin_valid) ==> (g_calls == 1 && g_arg_p1 == sndfile && g_arg_p2 == str && g_arg_int == str_type && __CPROVER_return_value == g_ret)) /*@C12.set_string_forwards_type_and_text*/
__CPROVER_ensures ((sndfile == NULL || !vin_valid) ==> g_calls == 0) /*@C09.invalid_handle_nothing_forwarded*/
;
void h_api (void) { SNDFILE *sndfile ; int t ; const char *s ; int v ; vin_valid = v ; g_calls = 0 ; sf_set_string (sndfile, t, s) ; REACH (g_calls == 1, "forwarded") ; CANARY () ; }
#endif

#ifdef U_GET_STRING
const char * sf_get_string (SNDFILE *sndfile, int str_type)
__CPROVER_requires ((sndfile == NULL || __CPROVER_is_fresh (sndfile, sizeof (SF_PRIVATE))) && g_calls == 0)
__CPROVER_assigns (g_calls, g_ret_p, g_arg_p1, g_arg_int)
__CPROVER_ensures ((sndfile != NULL && PSF->Magick == SNDFILE_MAGICK) ==> (g_calls == 1 && g_arg_p1 == sndfile && g_arg_int == str_type && (void *) __CPROVER_return_value == g_ret_p)) /*@C12.get_string_forwards_the_type*/
__CPROVER_ensures ((sndfile == NULL || PSF->Magick != SNDFILE_MAGICK) ==> (g_calls == 0 && __CPROVER_return_value == NULL)) /*@C09.invalid_handle_gives_null*/
;
void h_api (void) { SNDFILE *sndfile ; int t ; g_calls = 0 ; sf_get_string (sndfile, t) ; REACH (g_calls == 1, "forwarded") ; CANARY () ; }
#endif

#ifdef U_SET_CHUNK
int sf_set_chunk (SNDFILE * sndfile, const SF_CHUNK_INFO * chunk_info)
__CPROVER_requires (HANDLE (sndfile) && g_calls == 0 && (chunk_info == NULL || __CPROVER_is_fresh (chunk_info, sizeof (SF_CHUNK_INFO))))
__CPROVER_requires (sndfile == NULL || PSF->set_chunk == NULL || __CPROVER_obeys_contract (PSF->set_chunk, set_chunk_c))
__CPROVER_assigns (sf_errno, g_calls, g_ret, g_arg_p1, g_arg_p2; sndfile != NULL: PSF->error)
__CPROVER_ensures ((sndfile != NULL && vin_valid && (chunk_info == NULL || chunk_info->data == NULL)) ==> (__CPROVER_return_value == SFE_BAD_CHUNK_PTR && g_calls == 0)) /*@C09.chunk_without_data_refused*/ /*@C13.chunk_without_data_refused*/
__CPROVER_ensures ((sndfile != NULL && vin_valid && chunk_info != NULL && chunk_info->data != NULL && PSF->set_chunk == NULL) ==> (__CPROVER_return_value == SFE_BAD_CHUNK_FORMAT && g_calls == 0)) /*@C09.container_without_chunk_support_refuses*/ /*@C13.container_without_chunk_support_refuses*/
__CPROVER_ensures ((sndfile != NULL && vin_valid && chunk_info != NULL && chunk_info->data != NULL && PSF->set_chunk != NULL) ==> (g_calls == 1 && g_arg_p1 == sndfile && g_arg_p2 == chunk_info && __CPROVER_return_value == g_ret)) /*@C13.set_chunk_forwards_the_descriptor*/
__CPROVER_ensures ((sndfile == NULL || !vin_valid) ==> g_calls == 0) /*@C09.invalid_handle_nothing_forwarded*/
;
void h_api (void) { SNDFILE *sndfile ; const SF_CHUNK_INFO *ci ; int v ; void *keep_c [] = { (void *) set_chunk_c } ; (void) keep_c ; vin_valid = v ; g_calls = 0 ; sf_set_chunk (sndfile, ci) ; REACH (g_calls == 1, "forwarded") ; CANARY () ; }
#endif

#ifdef U_GET_ITERATOR
SF_CHUNK_ITERATOR * sf_get_chunk_iterator (SNDFILE * sndfile, const SF_CHUNK_INFO * chunk_info)
__CPROVER_requires (HANDLE (sndfile) && g_calls == 0 && (chunk_info == NULL || __CPROVER_is_fresh (chunk_info, sizeof (SF_CHUNK_INFO))))
__CPROVER_assigns (sf_errno, g_calls, g_ret_p, g_arg_p1, g_arg_p2; sndfile != NULL: PSF->error)
__CPROVER_ensures ((sndfile != NULL && vin_valid) ==> (g_calls == 1 && g_arg_p1 == sndfile && (void *) __CPROVER_return_value == g_ret_p
	&& g_arg_p2 == (chunk_info != NULL ? (const void *) chunk_info->id : NULL))) /*@C13.iterator_request_forwards_the_identifier*/
__CPROVER_ensures ((sndfile == NULL || !vin_valid) ==> (g_calls == 0 && __CPROVER_return_value == NULL)) /*@C09.invalid_handle_gives_null*/
;
void h_api (void) { SNDFILE *sndfile ; const SF_CHUNK_INFO *ci ; int v ; vin_valid = v ; g_calls = 0 ; sf_get_chunk_iterator (sndfile, ci) ; REACH (g_calls == 1, "forwarded") ; CANARY () ; }
#endif

#if defined (U_GET_SIZE) || defined (U_GET_DATA)
#ifdef U_GET_SIZE
#define GET_FN	sf_get_chunk_size
#define HOOK	get_chunk_size
#define NEED_DATA	0
#else
#define GET_FN	sf_get_chunk_data
#define HOOK	get_chunk_data
#define NEED_DATA	1
#endif
#define ISND	((SNDFILE *) iterator->sndfile)
#define IPSF	((SF_PRIVATE *) iterator->sndfile)
int GET_FN (const SF_CHUNK_ITERATOR * iterator, SF_CHUNK_INFO * chunk_info)
__CPROVER_requires ((iterator == NULL || (__CPROVER_is_fresh (iterator, sizeof (SF_CHUNK_ITERATOR)) && HANDLE (iterator->sndfile))) && g_calls == 0)
__CPROVER_requires (chunk_info == NULL || __CPROVER_is_fresh (chunk_info, sizeof (SF_CHUNK_INFO)))
__CPROVER_requires (iterator == NULL || iterator->sndfile == NULL || IPSF->HOOK == NULL || __CPROVER_obeys_contract (IPSF->HOOK, get_chunk_c))
__CPROVER_assigns (sf_errno, g_calls, g_ret, g_arg_p1, g_arg_p2; (iterator != NULL && iterator->sndfile != NULL): IPSF->error)
__CPROVER_ensures ((iterator == NULL || iterator->sndfile == NULL || !vin_valid) ==> g_calls == 0) /*@C09.invalid_handle_nothing_forwarded*/
__CPROVER_ensures ((iterator != NULL && iterator->sndfile != NULL && vin_valid && (chunk_info == NULL || (NEED_DATA && chunk_info->data == NULL))) ==>
	(__CPROVER_return_value == SFE_BAD_CHUNK_PTR && g_calls == 0)) /*@C09.chunk_query_without_destination_refused*/ /*@C13.chunk_query_without_destination_refused*/
__CPROVER_ensures ((iterator != NULL && iterator->sndfile != NULL && vin_valid && chunk_info != NULL && (!NEED_DATA || chunk_info->data != NULL) && IPSF->HOOK != NULL) ==>
	(g_calls == 1 && g_arg_p1 == iterator && g_arg_p2 == chunk_info && __CPROVER_return_value == g_ret)) /*@C13.chunk_query_forwards_iterator_and_destination*/
;
void h_api (void) { const SF_CHUNK_ITERATOR *it ; SF_CHUNK_INFO *ci ; int v ; void *keep_c [] = { (void *) get_chunk_c } ; (void) keep_c ; vin_valid = v ; g_calls = 0 ; GET_FN (it, ci) ; REACH (g_calls == 1, "forwarded") ; CANARY () ; }
#endif
