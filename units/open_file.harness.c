/* C16 / C15 / C09: psf_open_file (src/sndfile.c), the common tail of sf_open, sf_open_fd and sf_open_virtual.
** Every failure -- bad arguments, an unrecognised file, a container open function that fails at any depth, a
** header that does not validate -- ends in exactly one psf_close of the handle (the single release function proved
** in unit close.psf_close), NULL is returned and sf_errno is non-zero; a successful open returns the handle itself
** and releases nothing.  The container open functions are generated frame contracts (any return value, any effect
** on the handle); their names are extracted from the dispatch switch on every run.
*/
#include "env_pre.h"
#define psf_log_printf(...)		verif_nolog ()
#include "sndfile.c"
void verif_nolog (void) { }
#include "ghost.h"
#include "env_stubs.h"

int g_close_calls ; void *g_closed ; void *vin_psf ;
int vin_mode ;

#define ANY_EFFECT_ON_HANDLE(decl)	decl \
	__CPROVER_requires (__CPROVER_w_ok (psf, sizeof (SF_PRIVATE))) \
	__CPROVER_assigns (__CPROVER_object_whole (psf)) \
	__CPROVER_ensures (0 <= psf->bytewidth && psf->bytewidth <= 8 && psf->file.mode == __CPROVER_old (psf->file.mode)) ;	/* sample width as the library sets it, open mode untouched (not enforced here) */

OPEN_FUNCTIONS

int psf_close (SF_PRIVATE *psf)
__CPROVER_requires (__CPROVER_w_ok (psf, sizeof (SF_PRIVATE)))
__CPROVER_assigns (g_close_calls, g_closed)
__CPROVER_frees (psf)
__CPROVER_ensures (g_close_calls == __CPROVER_old (g_close_calls) + 1 && g_closed == psf)
;
int sf_format_check (const SF_INFO *info)
__CPROVER_requires (__CPROVER_r_ok (info, sizeof (SF_INFO)))
__CPROVER_assigns ()
__CPROVER_ensures (__CPROVER_return_value == 0 || __CPROVER_return_value == 1)
;
int32_t psf_rand_int32 (void)
__CPROVER_assigns ()
__CPROVER_ensures (1)
;
int psf_is_pipe (SF_PRIVATE *psf)
__CPROVER_requires (__CPROVER_r_ok (psf, sizeof (SF_PRIVATE)))
__CPROVER_assigns ()
__CPROVER_ensures (1)
;
sf_count_t psf_get_filelen (SF_PRIVATE *psf)
__CPROVER_requires (__CPROVER_r_ok (psf, sizeof (SF_PRIVATE)))
__CPROVER_assigns (psf->error, psf->syserr)
;
sf_count_t psf_fseek (SF_PRIVATE *psf, sf_count_t offset, int whence)
__CPROVER_requires (__CPROVER_r_ok (psf, sizeof (SF_PRIVATE)))
__CPROVER_assigns (psf->error, psf->syserr, psf->pipeoffset)
;
sf_count_t psf_ftell (SF_PRIVATE *psf)
__CPROVER_requires (__CPROVER_r_ok (psf, sizeof (SF_PRIVATE)))
__CPROVER_assigns (psf->error, psf->syserr)
;
ANY_EFFECT_ON_HANDLE (static int guess_file_type (SF_PRIVATE *psf))
ANY_EFFECT_ON_HANDLE (static int format_from_extension (SF_PRIVATE *psf))
ANY_EFFECT_ON_HANDLE (static void save_header_info (SF_PRIVATE *psf))
ANY_EFFECT_ON_HANDLE (void psf_log_SF_INFO (SF_PRIVATE *psf))
const char * sf_error_number (int errnum)
__CPROVER_assigns ()
__CPROVER_ensures (__CPROVER_return_value != NULL && __CPROVER_r_ok (__CPROVER_return_value, 1))
;

SNDFILE * psf_open_file (SF_PRIVATE *psf, SF_INFO *sfinfo)
__CPROVER_requires (__CPROVER_is_fresh (psf, sizeof (SF_PRIVATE)) && (sfinfo == NULL || __CPROVER_is_fresh (sfinfo, sizeof (SF_INFO))))
__CPROVER_requires (psf == vin_psf && psf->file.mode == vin_mode && g_close_calls == 0 && 0 <= psf->fileoffset)
__CPROVER_assigns (__CPROVER_object_whole (psf), sf_errno, __CPROVER_object_whole (sf_syserr), __CPROVER_object_whole (sf_parselog), g_close_calls, g_closed;
	sfinfo != NULL: __CPROVER_object_whole (sfinfo))
__CPROVER_frees (psf)
__CPROVER_ensures (__CPROVER_return_value == NULL || __CPROVER_return_value == (SNDFILE *) vin_psf) /*@C16.open_returns_the_handle_or_null*/
__CPROVER_ensures (__CPROVER_return_value == NULL ==> (g_close_calls == 1 && g_closed == vin_psf)) /*@C16.failed_open_releases_the_handle_exactly_once*/ /*@C15.failed_open_releases_the_handle_exactly_once*/
__CPROVER_ensures (__CPROVER_return_value == NULL ==> sf_errno != 0) /*@C09.failed_open_sets_error*/ /*@C15.failed_open_sets_error*/
__CPROVER_ensures (__CPROVER_return_value != NULL ==> (g_close_calls == 0 && sf_errno == 0)) /*@C16.successful_open_keeps_the_handle*/ /*@C09.successful_open_leaves_no_error*/
/* whatever the container's parser did, the handle that comes back describes a sane stream (real validate_sfinfo / validate_psf) */
__CPROVER_ensures ((__CPROVER_return_value != NULL && vin_mode == SFM_READ) ==>
	(sfinfo != NULL && 1 <= sfinfo->channels && sfinfo->channels <= 1024 && sfinfo->samplerate >= 1 && sfinfo->frames >= 0 && sfinfo->sections >= 1
	 && (sfinfo->format & SF_FORMAT_TYPEMASK) != 0 && (sfinfo->format & SF_FORMAT_SUBMASK) != 0)) /*@C03.opened_handle_has_sane_info*/
__CPROVER_ensures (__CPROVER_return_value != NULL ==>
	(psf->datalength >= 0 && psf->dataoffset >= 0 && psf->read_current == 0)) /*@C03.opened_handle_has_sane_geometry*/
__CPROVER_ensures ((vin_mode != SFM_READ && vin_mode != SFM_WRITE && vin_mode != SFM_RDWR) ==> __CPROVER_return_value == NULL) /*@C09.bad_open_mode_refused*/
;

void h_open_file (void)
{	SF_PRIVATE *psf ; SF_INFO *sfinfo ;
	{ void *p ; int m ; vin_psf = p ; vin_mode = m ; }
	g_close_calls = 0 ;
	SNDFILE *r = psf_open_file (psf, sfinfo) ;
	REACH (r != NULL, "open succeeds") ;
	REACH (r == NULL && vin_mode == SFM_READ, "open for read fails") ;
	CANARY () ;
}
