/* C04 / C10: what mat5_write_header (src/mat5.c) puts into the sample-rate element and into the array geometry.
** psf_binheader_writef (variadic) is redirected to a non-variadic recording model: it advances the header cache by
** the number of bytes the format string and the size arguments stand for, and recognises the two data elements the
** MAT5 reader (mat5_read_header: MAT5_TYPE_COMP_USHORT / MAT5_TYPE_COMP_UINT) accepts for the sample rate.
** Claim: exactly one sample-rate element is written, it is one the reader accepts, and it holds the handle's sample
** rate exactly -- a 32 bit element whenever the rate does not fit 16 bits.
*/
#include "env_pre.h"
#include <stdint.h>
#include "sfconfig.h"
#include "sndfile.h"
#include "sfendian.h"
#include "common.h"		/* the real prototypes first: the redirections below must not rewrite them */
#define psf_log_printf(...)		verif_nolog ()
void verif_nolog (void) ;
int verif_writef_rec (SF_PRIVATE *psf, const char *fmt, int nargs, const uint64_t *args) ;
#define VM1(a)							(uint64_t) (a)
#define VM2(a, ...)						(uint64_t) (a), VM1 (__VA_ARGS__)
#define VM3(a, ...)						(uint64_t) (a), VM2 (__VA_ARGS__)
#define VM4(a, ...)						(uint64_t) (a), VM3 (__VA_ARGS__)
#define VM5(a, ...)						(uint64_t) (a), VM4 (__VA_ARGS__)
#define VM6(a, ...)						(uint64_t) (a), VM5 (__VA_ARGS__)
#define VM7(a, ...)						(uint64_t) (a), VM6 (__VA_ARGS__)
#define VM8(a, ...)						(uint64_t) (a), VM7 (__VA_ARGS__)
#define VM_PICK(_1, _2, _3, _4, _5, _6, _7, _8, NAME, ...)	NAME
#define VM(...)							VM_PICK (__VA_ARGS__, VM8, VM7, VM6, VM5, VM4, VM3, VM2, VM1) (__VA_ARGS__)
#define VN(...)							VM_PICK (__VA_ARGS__, 8, 7, 6, 5, 4, 3, 2, 1)
#define psf_binheader_writef(psf, fmt, ...)	verif_writef_rec ((psf), (fmt), VN (__VA_ARGS__), (const uint64_t []) { VM (__VA_ARGS__) })
#include "mat5.c"
void verif_nolog (void) { }
#include "ghost.h"
#include "env_stubs.h"

#define HDRLEN 1024
int g_rate_elems ; uint64_t g_rate_tag, g_rate_val ;
int g_dims_elems ; uint64_t g_dims_rows, g_dims_cols ;
int vin_rate ; sf_count_t vin_frames ; int vin_channels ;

/* E1 model of psf_binheader_writef for the format characters mat5.c uses */
int verif_writef_rec (SF_PRIVATE *psf, const char *fmt, int nargs, const uint64_t *args)
{	int k = 0, a = 0, bytes = 0, trunc = 0 ;
	for (k = 0 ; k < 8 && fmt [k] != 0 ; k++)
	{	char c = fmt [k] ;
		if (c == 't') trunc = 1 ;
		else if (c == 'T') trunc = 0 ;
		else if (c == 'e' || c == 'E' || c == ' ') { }
		else if (c == '1') { bytes += 1 ; a ++ ; }
		else if (c == '2') { bytes += 2 ; a ++ ; }
		else if (c == '3') { bytes += 3 ; a ++ ; }
		else if (c == '4' || c == 'm') { bytes += 4 ; a ++ ; }
		else if (c == '8') { bytes += trunc ? 4 : 8 ; a ++ ; }
		else if (c == 'b') { __CPROVER_assert (a + 1 < nargs && args [a + 1] <= 256, "E1 writef model: raw block of a small size") ; bytes += (int) args [a + 1] ; a += 2 ; }
		else if (c == 'z') { __CPROVER_assert (a < nargs && args [a] <= 256, "E1 writef model: zero fill of a small size") ; bytes += (int) args [a] ; a ++ ; }
		else __CPROVER_assert (0, "E1 writef model: format character not modelled") ;
		} ;
	__CPROVER_assert (a == nargs, "E1 writef model: argument count matches the format string") ;
	__CPROVER_assert (psf->header.indx + bytes <= HDRLEN, "E1 writef model: header fits the cache") ;
	psf->header.indx += bytes ;
	/* the sample-rate element */
	if (nargs == 2 && fmt [0] == '4' && fmt [1] == '4' && fmt [2] == 0 && args [0] == MAT5_TYPE_COMP_UINT)
	{	g_rate_elems ++ ; g_rate_tag = args [0] ; g_rate_val = args [1] ; }
	if (nargs == 3 && fmt [0] == '4' && fmt [1] == '2' && fmt [2] == '2' && args [0] == MAT5_TYPE_COMP_USHORT)
	{	g_rate_elems ++ ; g_rate_tag = args [0] ; g_rate_val = args [1] ; }
	/* the dimensions of the wave data array: rows = channels, columns = frames */
	if (nargs == 4 && fmt [0] == 't' && fmt [1] == '4' && fmt [2] == '4' && fmt [3] == '4' && fmt [4] == '8' && args [0] == MAT5_TYPE_INT32)
	{	g_dims_elems ++ ; g_dims_rows = args [2] ; g_dims_cols = args [3] ; }
	return bytes ;
}

/* plain harness (mat5_write_header keeps its banner strings in function-local statics, which DFCC leaves
** unconstrained): the I/O primitives are stand-ins with bodies */
sf_count_t psf_ftell (SF_PRIVATE *psf) { sf_count_t nd ; __CPROVER_assume (0 <= nd && nd <= (1LL << 50)) ; return nd ; }
sf_count_t psf_fseek (SF_PRIVATE *psf, sf_count_t offset, int whence) { sf_count_t nd ; return nd ; }
sf_count_t psf_fwrite (const void *ptr, sf_count_t bytes, sf_count_t items, SF_PRIVATE *psf)
{	__CPROVER_assert (bytes >= 0 && bytes <= HDRLEN && items == 1 && __CPROVER_r_ok (ptr, (size_t) bytes), "header write stays inside the header cache") ;
	_Bool fail_nd ; if (fail_nd) { psf->error = SFE_SYSTEM ; return 0 ; } return items ;
}
void psf_get_date_str (char *str, int maxlen) { str [0] = 'T' ; str [1] = 0 ; }	/* wall clock text: a short string */

static unsigned char hbuf [HDRLEN] ;
static SF_PRIVATE W ;

void h_mat5_write_header (void)
{	int rate, channels, subformat, endian, bytewidth ; sf_count_t frames ;
	__CPROVER_assume (1 <= rate && 1 <= channels && channels <= 1024 && 0 <= frames && frames <= 0x7fffffff && 1 <= bytewidth && bytewidth <= 8) ;
	__CPROVER_assume (endian == SF_ENDIAN_LITTLE || endian == SF_ENDIAN_BIG) ;
	__CPROVER_assume ((subformat & ~SF_FORMAT_SUBMASK) == 0) ;
	W.header.ptr = hbuf ; W.header.len = HDRLEN ;
	W.sf.samplerate = rate ; W.sf.channels = channels ; W.sf.frames = frames ; W.sf.format = SF_FORMAT_MAT5 | subformat ; W.endian = endian ; W.bytewidth = bytewidth ;
	g_rate_elems = 0 ; g_dims_elems = 0 ;
	int r = mat5_write_header (&W, SF_FALSE) ;		/* the first header, as written by mat5_open; the rewrite at close runs the same element code */
	if (r == 0)
	{	__CPROVER_assert (g_rate_elems == 1, "exactly one sample-rate element, of a kind the reader accepts") ; /*@C04.one_sample_rate_element_the_reader_accepts*/ /*@C10.one_sample_rate_element_the_reader_accepts*/
		__CPROVER_assert (g_rate_val == (uint64_t) rate, "the element holds the sample rate exactly") ; /*@C04.sample_rate_stored_exactly*/ /*@C10.sample_rate_stored_exactly*/
		__CPROVER_assert (rate <= 0xFFFF || g_rate_tag == MAT5_TYPE_COMP_UINT, "a rate that does not fit 16 bits uses the 32 bit element") ; /*@C04.wide_rate_uses_the_32_bit_element*/
		__CPROVER_assert (g_dims_elems == 1 && g_dims_rows == (uint64_t) channels && g_dims_cols == (uint64_t) frames, "array geometry is channels x frames") ; /*@C04.array_geometry_is_channels_by_frames*/
		__CPROVER_assert (W.dataoffset == W.header.indx, "the audio starts right behind the header") ; /*@C04.dataoffset_is_header_length*/
		} ;
	REACH (r == 0 && rate > 0xFFFF, "wide sample rate") ;
	REACH (r == 0 && rate <= 0xFFFF, "16 bit sample rate") ;
	REACH (r != 0, "encoding MAT5 cannot store") ;
	CANARY () ;
}
