"""C14 / C15 / C16 / C19: src/file_io.c primitives: the I/O contracts assumed everywhere else are enforced here."""

E = ["E3 POSIX models read/write/lseek/close/errno (units/file_io.harness.c): any call may fail or transfer fewer bytes; EINTR finitely often",
     "E4 virtual-I/O callbacks transfer at most what was asked (vio_*_c)", "E1 snprintf model; strerror stand-in"]


def units():
    U = []
    inv = ("0 <= total && total <= (1LL << 31) && 0 <= items && items <= (1LL << 31) && total + items == __CPROVER_loop_entry (items) "
           "&& 0 <= g_eintr_budget && g_eintr_budget <= 1000 && psf->error == __CPROVER_loop_entry (psf->error)")
    for fn, entry in (("psf_fread", "h_fread"), ("psf_fwrite", "h_fwrite")):
        for b in (1, 2, 3, 4, 8):
            U.append({"name": "file_io.%s.bytes%d" % (fn, b), "props": ["C14", "C15", "C19"], "harness": "file_io.harness.c", "entry": entry,
                      "enforce": fn, "function": "file_io.c:" + fn, "defines": ["-DBYTES=%d" % b], "trusted": E, "timeout": 600, "pre_gi_flags": ["--generate-function-body", "psf_log_printf", "--generate-function-body-options", "nondet-return"],
                      "loops": {fn: [{"loop_id": 0, "assigns_locals": True,
                                      "assigns": "psf->error, psf->syserr, g_eintr_budget, verif_errno_cell" + (", __CPROVER_object_whole (ptr)" if fn == "psf_fread" else ""),
                                      "invariants": inv, "decreases": "items + g_eintr_budget"}]},
                      "kind": "enumerated(item size=%d)" % b, "tier": "quick" if b in (1, 2, 3) else "thorough"})
    for fn, entry in (("psf_fseek", "h_fseek"), ("psf_ftell", "h_ftell"), ("psf_fclose", "h_fclose"), ("psf_close_rsrc", "h_close_rsrc"), ("psf_open_rsrc", "h_open_rsrc"), ("psf_ftruncate", "h_ftruncate"),
                      ("psf_use_rsrc", "h_use_rsrc"), ("psf_fopen", "h_fopen"), ("psf_set_stdio", "h_set_stdio"), ("psf_file_valid", "h_file_valid"), ("psf_is_pipe", "h_is_pipe"), ("psf_get_filelen", "h_get_filelen")):
        u = {"name": "file_io." + fn, "props": ["C14", "C15", "C16", "C19"], "harness": "file_io.harness.c", "entry": entry,
             "enforce": fn, "function": "file_io.c:" + fn, "trusted": E, "timeout": 600, "pre_gi_flags": ["--generate-function-body", "psf_log_printf", "--generate-function-body-options", "nondet-return"]}
        if fn == "psf_ftruncate":
            u["props"] = ["C08", "C15", "C09"]
        if fn == "psf_open_rsrc":
            u["props"] = ["C16", "C19"]
            u["loops"] = {"psf_close_fd": [{"loop_id": 0, "assigns_locals": True, "assigns": "g_close_calls, g_closed_fd, g_eintr_budget, verif_errno_cell, g_released",
                                            "invariants": "0 <= g_eintr_budget && g_eintr_budget <= 1000 && g_close_calls <= 1001 && g_close_calls + (unsigned) g_eintr_budget <= 1001 "
                                                          "&& g_released == __CPROVER_loop_entry (g_released)",
                                            "decreases": "g_eintr_budget"}]}
        if fn in ("psf_fclose", "psf_close_rsrc"):
            u["loops"] = {"psf_close_fd": [{"loop_id": 0, "assigns_locals": True, "assigns": "g_close_calls, g_closed_fd, g_eintr_budget, verif_errno_cell, g_released",
                                            "invariants": "0 <= g_eintr_budget && g_eintr_budget <= 1000 && g_close_calls <= 1001 && g_close_calls + (unsigned) g_eintr_budget <= 1001",
                                            "decreases": "g_eintr_budget"}]}
        U.append(u)
    return U
