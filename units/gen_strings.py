"""C12 / C17: broadcast (bext) and cart metadata setters/getters."""


def units():
    U = []
    for kind, file, tmax, extra in (("broadcast", "broadcast.c", "sizeof (((SF_BROADCAST_INFO_16K *) 0)->coding_history)", ["gen_coding_history"]),
                                    ("cart", "cart.c", "sizeof (((SF_CART_INFO_16K *) 0)->tag_text)", [])):
        for op in ("set", "get"):
            fn = "%s_var_%s" % (kind, op)
            U.append({"name": "%s.%s" % (kind, fn), "props": ["C12", "C17", "C09"], "harness": "metadata.harness.c", "entry": "h_" + op,
                      "enforce": fn, "function": "%s:%s" % (file, fn), "replace": ["psf_strlcpy_crlf", "psf_strlcat"] + extra,
                      "defines": ["-DUNIT_%s" % kind.upper(), "-DMETADATA_FILE=\"%s\"" % file, "-DTEXT_MAX=%s" % tmax],
                      "timeout": 900, "mem_gb": 12, "backend": "kissat",
                      "trusted": ["E1 strlen model on the library's own terminated 16 KiB buffer", "psf_strlcpy_crlf / psf_strlcat contracts (common.c): no unit yet"]})
    U.append({"name": "strings.string_table", "props": ["C12", "C19", "C09"], "harness": "strings.harness.c", "entry": "h_strings", "dfcc": False,
              "function": "strings.c:psf_store_string, psf_set_string, psf_get_string, psf_location_string_count",
              "cbmc_flags": ["--object-bits", "9", "--unwind", "40", "--memory-leak-check"], "timeout": 900,
              "kind": "bounded(strings of at most 7 characters; histories of 3 set calls; types, strings, capability flags symbolic)",
              "trusted": ["CBMC heap model (realloc, memcpy, strlen)", "SF_STR_SOFTWARE excluded (the library appends its own name through snprintf)"]})
    for ns in (1, 2, 3, 4):
        for nd in (3, 8):
            U.append({"name": "common.psf_strlcpy_crlf.src%d.dst%d" % (ns, nd), "props": ["C17", "C12"], "harness": "strlcpy_crlf.harness.c", "entry": "h_strlcpy_crlf", "dfcc": False,
                      "function": "common.c:psf_strlcpy_crlf", "timeout": 600, "cbmc_flags": ["--object-bits", "9", "--unwind", "12"], "defines": ["-DNSRC=%d" % ns, "-DNDST=%d" % nd],
                      "kind": "bounded(source %d bytes, destination %d bytes, exactly sized; contents symbolic)" % (ns, nd), "trusted": []})
    for nm, fn, d in (("psf_get_cues", "psf_get_cues", "U_GET"), ("psf_cues_dup", "psf_cues_dup", "U_DUP")):
        U.append({"name": "common." + nm, "props": ["C17", "C12", "C09"], "harness": "cues.harness.c", "entry": "h_cues", "enforce": fn,
                  "function": "common.c:" + fn, "defines": ["-D" + d], "timeout": 600, "cbmc_flags": ["--object-bits", "9"], "backend": "kissat",
                  "replace": (["psf_cues_alloc"] if d == "U_DUP" else []),
                  "trusted": ["E1 memcpy model (both ranges asserted for the symbolic length; destination then unconstrained)", "CBMC calloc never fails"]})
    for hist in (0, 6):
        U.append({"name": "bext.wav_chunk_pair.hist%d" % hist, "props": ["C12"], "harness": "bext_pair.harness.c", "entry": "h_bext_pair", "dfcc": False,
                  "function": "wavlike.c:wavlike_write_bext_chunk + wavlike_read_bext_chunk (with common.c psf_binheader_writef/readf)",
                  "link_sources": ["common.c"], "defines": ["-DHIST=%d" % hist, "-include", "/verif/spec/abi_vaarg.h"],
                  "pre_gi_flags": ["--remove-function-body", "psf_log_printf"],
                  "cbmc_flags": ["--object-bits", "9", "--unwind", "30", "--unwindset", "h_bext_pair.0:1030,h_bext_pair.1:1030,psf_binheader_writef.0:190"], "timeout": 900,
                  "kind": "proof(pair lemma; coding history size enumerated (%d); all field contents symbolic, ghost index into the text fields)" % hist,
                  "trusted": ["spec/abi_vaarg.h (variadic int arguments fetched as size_t)", "the reader's block is the harness's zeroed static block (broadcast_var_alloc stand-in)"]})
    for tag in (0, 6):
        U.append({"name": "cart.wav_chunk_pair.tag%d" % tag, "props": ["C12"], "harness": "cart_pair.harness.c", "entry": "h_cart_pair", "dfcc": False,
                  "function": "wavlike.c:wavlike_write_cart_chunk + wavlike_read_cart_chunk (with common.c psf_binheader_writef/readf)",
                  "link_sources": ["common.c"], "defines": ["-DTAG=%d" % tag, "-include", "/verif/spec/abi_vaarg.h"],
                  "pre_gi_flags": ["--remove-function-body", "psf_log_printf"],
                  "cbmc_flags": ["--object-bits", "9", "--unwind", "30", "--unwindset", "h_cart_pair.0:4100,h_cart_pair.1:4100,psf_binheader_writef.0:300"], "timeout": 900,
                  "kind": "proof(pair lemma; tag text size enumerated (%d); all field contents symbolic, ghost index into the text fields)" % tag,
                  "trusted": ["spec/abi_vaarg.h (variadic int arguments fetched as size_t)", "the reader's block is the harness's zeroed static block (cart_var_alloc stand-in)"]})
    return U


NOT_DECIDED = {
    "C12": ["serialisation of strings / bext / cart / cues / instrument / channel map into the container and back (pair lemmas): no unit yet",
            "psf_store_string / psf_get_string, psf_cues_dup / psf_get_cues, CR/LF normalisation (psf_strlcpy_crlf): no unit yet"],
}
