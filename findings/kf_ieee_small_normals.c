/* C20 defect (fixed): the portable IEEE serialisers float32_{le,be}_write / double64_{le,be}_write (used on
** non-IEEE hosts and under SFC_TEST_IEEE_FLOAT_REPLACE) wrote 0.0 for every value of magnitude below 1e-30,
** although single precision is normal down to 1.18e-38 and double precision down to 2.2e-308.
** exit 0: property holds; 1: defect present.
*/
#include <stdio.h>
#include <string.h>
#include <sndfile.h>

static int round_trip (int subformat, double v)
{	const char *path = "kf_ieee_small_normals.wav" ;
	SF_INFO info ; memset (&info, 0, sizeof (info)) ;
	info.samplerate = 8000 ; info.channels = 1 ; info.format = SF_FORMAT_WAV | subformat ;
	SNDFILE *w = sf_open (path, SFM_WRITE, &info) ;
	if (!w) return 3 ;
	sf_command (w, SFC_TEST_IEEE_FLOAT_REPLACE, NULL, SF_TRUE) ;
	double in [2] = { v, -v }, out [2] = { 1, 1 } ;
	if (sf_write_double (w, in, 2) != 2) return 3 ;
	sf_close (w) ;
	memset (&info, 0, sizeof (info)) ;
	SNDFILE *r = sf_open (path, SFM_READ, &info) ;		/* native reader */
	if (!r) return 3 ;
	sf_read_double (r, out, 2) ;
	sf_close (r) ; remove (path) ;
	printf ("%s: wrote %g %g, file holds %g %g\n", subformat == SF_FORMAT_FLOAT ? "float" : "double", in [0], in [1], out [0], out [1]) ;
	return (out [0] == in [0] && out [1] == in [1]) ? 0 : 1 ;
}

int main (void)
{	int bad = 0 ;
	bad |= round_trip (SF_FORMAT_FLOAT, (double) 1.5e-35f) ;	/* exactly representable in single precision */
	bad |= round_trip (SF_FORMAT_DOUBLE, 1.5e-200) ;
	puts (bad ? "DEFECT: small normal values are stored as zero by the portable serialisers" : "ok") ;
	return bad ;
}
