/* C05 / C15 defect (fixed): host_read_d (src/double64.c), byte-swapped doubles.  When the one-shot psf_fread
** delivered at least SENSIBLE_LEN (2^27) items but fewer than requested, the byte-swap pass ran over the
** REQUESTED length and the function returned the requested length: the call reports items the I/O layer never
** delivered and the read position advances past them.  Shown with a generated (virtual I/O) big-endian AU file
** whose read callback starts failing after 2^27 + 16 items.
** exit 0: property holds; 1: defect present; 3: environment (not enough memory).
*/
#include <stdio.h>
#include <stdlib.h>
#include <string.h>
#include <sndfile.h>

#define ITEMS_OK	((1LL << 27) + 16)
#define ITEMS_ASK	((1LL << 27) + 1024)
#define ITEMS_HDR	((1LL << 27) + 4096)
static sf_count_t pos ;
static const sf_count_t flen = 24 + 8 * ITEMS_HDR ;
static unsigned char hdr [24] = { '.', 's', 'n', 'd', 0, 0, 0, 24, 0, 0, 0, 0, 0, 0, 0, 7, 0, 0, 0x1f, 0x40, 0, 0, 0, 1 } ;

static sf_count_t v_len (void *u) { return flen ; }
static sf_count_t v_seek (sf_count_t off, int whence, void *u)
{	if (whence == SEEK_SET) pos = off ; else if (whence == SEEK_CUR) pos += off ; else pos = flen + off ;
	return pos ;
}
static sf_count_t v_tell (void *u) { return pos ; }
static sf_count_t v_write (const void *p, sf_count_t n, void *u) { return 0 ; }
static sf_count_t v_read (void *p, sf_count_t n, void *u)
{	sf_count_t limit = 24 + 8 * ITEMS_OK, done = 0 ;
	if (pos + n > limit) n = limit - pos ;		/* the medium fails from here on */
	if (n <= 0) return 0 ;
	while (done < n && pos < 24) { ((unsigned char *) p) [done ++] = hdr [pos ++] ; }
	if (done < n) { memset ((char *) p + done, 0, n - done) ; pos += n - done ; done = n ; }
	return done ;
}

int main (void)
{	unsigned long dl = (unsigned long) (8 * ITEMS_HDR) ;
	hdr [8] = dl >> 24 ; hdr [9] = dl >> 16 ; hdr [10] = dl >> 8 ; hdr [11] = dl ;
	SF_VIRTUAL_IO vio = { v_len, v_seek, v_read, v_write, v_tell } ;
	SF_INFO info ; memset (&info, 0, sizeof (info)) ;
	SNDFILE *r = sf_open_virtual (&vio, SFM_READ, &info, NULL) ;
	if (!r) { puts (sf_strerror (NULL)) ; return 3 ; }
	double *buf = malloc (ITEMS_ASK * sizeof (double)) ;
	if (!buf) return 3 ;
	sf_count_t got = sf_read_double (r, buf, ITEMS_ASK) ;
	sf_count_t at = sf_seek (r, 0, SEEK_CUR) ;
	printf ("asked %lld, I/O delivered %lld, returned %lld, position %lld\n", (long long) ITEMS_ASK, (long long) ITEMS_OK, (long long) got, (long long) at) ;
	sf_close (r) ; free (buf) ;
	if (got != ITEMS_OK || at != ITEMS_OK) { puts ("DEFECT: the read call reports items that were never read") ; return 1 ; }
	puts ("ok") ; return 0 ;
}
