/* C18 defect (fixed): the converting float/double writers (host_write_{s,i,d}2f, host_write_{s,i,f}2d and the
** replace_* variants) cut the caller's data into staging-buffer chunks of 2048 floats / 1024 doubles without
** regard to the channel count.  When the channel count does not divide the chunk size, every second chunk
** starts in the middle of a frame, and the peak update -- which assumes buffer [0] is channel 0 -- credits the
** samples to the wrong channels and computes positions from a truncated frame offset.
** exit 0: property holds; 1: defect present.
*/
#include <stdio.h>
#include <stdlib.h>
#include <string.h>
#include <math.h>
#include <sndfile.h>

#define CH 3
#define FRAMES 1000
int main (void)
{	const char *path = "kf_peak_split_frames.wav" ;
	static int data [FRAMES * CH] ;
	/* one loud sample: channel 0 of frame 700 (item 2100, i.e. inside the second staging chunk) */
	for (int k = 0 ; k < FRAMES * CH ; k++) data [k] = 1 << 16 ;
	data [700 * CH + 0] = 0x40000000 ;
	SF_INFO info ; memset (&info, 0, sizeof (info)) ;
	info.samplerate = 8000 ; info.channels = CH ; info.format = SF_FORMAT_WAV | SF_FORMAT_FLOAT ;
	SNDFILE *w = sf_open (path, SFM_WRITE, &info) ;
	if (!w) return 3 ;
	if (sf_write_int (w, data, FRAMES * CH) != FRAMES * CH) return 3 ;
	sf_close (w) ;
	memset (&info, 0, sizeof (info)) ;
	SNDFILE *r = sf_open (path, SFM_READ, &info) ;
	if (!r) return 3 ;
	double peaks [CH] ;
	if (sf_command (r, SFC_GET_MAX_ALL_CHANNELS, peaks, sizeof (peaks)) != SF_TRUE) return 3 ;
	sf_close (r) ; remove (path) ;
	printf ("stored peaks: ch0 %g ch1 %g ch2 %g (true: 1.07374e+09, 65536, 65536)\n", peaks [0], peaks [1], peaks [2]) ;
	int bad = !(peaks [0] == (double) 0x40000000 && peaks [1] == 65536.0 && peaks [2] == 65536.0) ;
	puts (bad ? "DEFECT: PEAK chunk credits the maximum to the wrong channel" : "ok") ;
	return bad ;
}
