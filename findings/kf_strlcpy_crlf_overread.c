/* C17 defect (fixed): psf_strlcpy_crlf (src/common.c) looked at src [1] without checking that it is still inside
** srcmax.  SFC_SET_BROADCAST_INFO with an exactly sized block whose coding history ends in a line feed reads one
** byte behind the caller's data.  Run under AddressSanitizer.
** exit 0: property holds; non-zero / ASan report: defect present.
*/
#include <stdio.h>
#include <stdlib.h>
#include <string.h>
#include <stddef.h>
#include <sndfile.h>

typedef SF_BROADCAST_INFO_VAR (16) BEXT16 ;

int main (void)
{	const char *path = "kf_strlcpy_crlf_overread.wav" ;
	SF_INFO info ; memset (&info, 0, sizeof (info)) ;
	info.samplerate = 8000 ; info.channels = 1 ; info.format = SF_FORMAT_WAV | SF_FORMAT_PCM_16 ;
	SNDFILE *w = sf_open (path, SFM_WRITE, &info) ;
	if (!w) return 3 ;
	size_t size = offsetof (BEXT16, coding_history) + 16 ;		/* the documented size for 16 bytes of history */
	BEXT16 *b = malloc (size) ;									/* exactly that many bytes */
	memset (b, 0, size) ;
	b->coding_history_size = 16 ;
	memset (b->coding_history, 'x', 16) ;
	b->coding_history [15] = '\n' ;								/* the text ends in a line feed at the last byte */
	int ok = sf_command (w, SFC_SET_BROADCAST_INFO, b, (int) size) ;
	sf_close (w) ; free (b) ; remove (path) ;
	printf ("SFC_SET_BROADCAST_INFO returned %d\n", ok) ;
	puts ("ok (no read behind the block)") ;
	return 0 ;
}
