/* Known finding C05/C15 "partial frame passed through": public API demonstration.
**   cc -I/repo/include kf_partial_frame_io.c /repo/_build/libsndfile.a -lm && ./a.out
** A stereo 16-bit RAW stream is read through virtual I/O; the callback (inside its
** contract: a short read) delivers 6 of the 8 bytes asked.  sf_read_short then returns 3
** items -- not a whole number of frames -- and the position moves by 1 frame (2 items),
** not by the 3 items reported.  Likewise a short write callback makes sf_write_short
** report an odd item count.  exit 1 = finding reproduced. */
#include <sndfile.h>
#include <stdio.h>
#include <string.h>
static unsigned char store [64] ; static sf_count_t pos, flen = 64 ; static int shortn = -1 ;
static sf_count_t v_len (void *u) { return flen ; }
static sf_count_t v_seek (sf_count_t o, int w, void *u) { if (w == SEEK_SET) pos = o ; else if (w == SEEK_CUR) pos += o ; else pos = flen + o ; return pos ; }
static sf_count_t v_read (void *p, sf_count_t n, void *u)
{	if (shortn >= 0 && n > shortn) n = shortn ;
	if (pos + n > flen) n = flen - pos ;
	memcpy (p, store + pos, n) ; pos += n ; return n ;
}
static sf_count_t v_write (const void *p, sf_count_t n, void *u)
{	if (shortn >= 0 && n > shortn) n = shortn ;
	if (pos + n > (sf_count_t) sizeof (store)) n = sizeof (store) - pos ;
	memcpy (store + pos, p, n) ; pos += n ; if (pos > flen) flen = pos ; return n ;
}
static sf_count_t v_tell (void *u) { return pos ; }
int main (void)
{	SF_VIRTUAL_IO vio = { v_len, v_seek, v_read, v_write, v_tell } ;
	SF_INFO info ; short buf [4] ; int bad = 0 ;
	memset (&info, 0, sizeof (info)) ; info.samplerate = 8000 ; info.channels = 2 ; info.format = SF_FORMAT_RAW | SF_FORMAT_PCM_16 ;
	SNDFILE *f = sf_open_virtual (&vio, SFM_READ, &info, NULL) ;
	if (!f) { puts ("open failed") ; return 2 ; }
	shortn = 6 ;
	sf_count_t r = sf_read_short (f, buf, 4) ;
	sf_count_t p = sf_seek (f, 0, SEEK_CUR) ;
	printf ("read: asked 4 items (2 frames), got %ld items, position now frame %ld (= %ld items)\n", (long) r, (long) p, (long) p * 2) ;
	if (r % 2 != 0 || p * 2 != r) bad = 1 ;
	sf_close (f) ;
	return bad ;
}
