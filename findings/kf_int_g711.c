/* Known finding KF5 (C02): sf_write_int to u-law / A-law does not depend on the 16 most
** significant bits only.  Two int samples with identical top 16 bits are stored as different
** codes (negative samples: the magnitude is taken before the low bits are dropped).
**   cc -I/repo/include kf_int_g711.c /repo/_build/libsndfile.a -lm && ./a.out ; exit 1 = reproduced */
#include <sndfile.h>
#include <stdio.h>
#include <string.h>
int main (void)
{	int bad = 0 ; int fmts [2] = { SF_FORMAT_ULAW, SF_FORMAT_ALAW } ;
	for (int k = 0 ; k < 2 ; k++)
	{	int sh = k ? 20 : 18 ;
		for (int m = 1 ; m < 64 && !bad ; m++)
		{	int v [2] = { -(m << sh), -(m << sh) + 1 } ;	/* same top 16 bits when (m << sh) is a multiple of 65536 ... */
			if (((v [0] >> 16) != (v [1] >> 16))) continue ;
			SF_INFO i ; memset (&i, 0, sizeof i) ; i.samplerate = 8000 ; i.channels = 1 ; i.format = SF_FORMAT_RAW | fmts [k] ;
			SNDFILE *f = sf_open ("/tmp/kf_int_g711.raw", SFM_WRITE, &i) ; sf_write_int (f, v, 2) ; sf_close (f) ;
			FILE *fp = fopen ("/tmp/kf_int_g711.raw", "rb") ; unsigned char b [2] ; fread (b, 1, 2, fp) ; fclose (fp) ;
			if (b [0] != b [1])
			{	printf ("%s: %d (0x%08X) -> 0x%02X but %d (0x%08X) -> 0x%02X : same 16 most significant bits, different codes\n",
					k ? "alaw" : "ulaw", v [0], v [0], b [0], v [1], v [1], b [1]) ; bad = 1 ; }
			} ;
		bad = bad ? 1 : 0 ;
		} ;
	remove ("/tmp/kf_int_g711.raw") ;
	return bad ;
}
