/* C18 defect (fixed): replace_write_f2d (src/double64.c, the portable double writer used on non-IEEE hosts and
** under SFC_TEST_IEEE_FLOAT_REPLACE) was the only writer of a PEAK-carrying encoding that never ran the peak
** update: floats written through sf_write_float left the PEAK chunk at zero.
** exit 0: property holds; 1: defect present.
*/
#include <stdio.h>
#include <string.h>
#include <sndfile.h>

int main (void)
{	const char *path = "kf_replace_write_f2d_peak.wav" ;
	float data [8] = { 0.1f, -0.2f, 0.75f, 0.1f, 0.0f, -0.5f, 0.25f, 0.0f } ;
	SF_INFO info ; memset (&info, 0, sizeof (info)) ;
	info.samplerate = 8000 ; info.channels = 2 ; info.format = SF_FORMAT_WAV | SF_FORMAT_DOUBLE ;
	SNDFILE *w = sf_open (path, SFM_WRITE, &info) ;
	if (!w) return 3 ;
	sf_command (w, SFC_TEST_IEEE_FLOAT_REPLACE, NULL, SF_TRUE) ;
	if (sf_write_float (w, data, 8) != 8) return 3 ;
	sf_close (w) ;
	memset (&info, 0, sizeof (info)) ;
	SNDFILE *r = sf_open (path, SFM_READ, &info) ;
	if (!r) return 3 ;
	double peaks [2] = { -1, -1 } ;
	int have = sf_command (r, SFC_GET_MAX_ALL_CHANNELS, peaks, sizeof (peaks)) ;
	sf_close (r) ; remove (path) ;
	printf ("have=%d stored peaks: %g %g (true: 0.75 0.5)\n", have, peaks [0], peaks [1]) ;
	int bad = !(have == SF_TRUE && peaks [0] == (double) 0.75f && peaks [1] == 0.5) ;
	puts (bad ? "DEFECT: PEAK chunk does not hold the maxima of what was written" : "ok") ;
	return bad ;
}
