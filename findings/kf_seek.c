/* Known findings KF2 and KF3 (C06/C08/C09/C15): public API demonstration.
**   cc -I/repo/include kf_seek.c /repo/_build/libsndfile.a -lm && ./a.out ; echo $?
** KF2: in SFM_RDWR mode sf_seek (f, 0, SEEK_CUR) is not a pure "tell": it reports the write
**      position and drags the read position onto it.
** KF3: when the underlying seek fails, sf_seek returns -1 but also stores -1 into the
**      read/write position.
** KF6: consequence of KF2 inside the library: SFC_CALC_SIGNAL_MAX on a read/write handle whose read and write
**      positions differ leaves the read position at the write position.
** exit status: bit 0 = KF2 reproduced, bit 1 = KF3 reproduced, bit 2 = KF6 reproduced. */
#include <sndfile.h>
#include <stdio.h>
#include <string.h>
static unsigned char store [4096] ; static sf_count_t pos, flen ; static int fail_seek ;
static sf_count_t v_len (void *u) { return flen ; }
static sf_count_t v_seek (sf_count_t o, int w, void *u)
{	if (fail_seek) return -1 ;
	if (w == SEEK_SET) pos = o ; else if (w == SEEK_CUR) pos += o ; else pos = flen + o ; return pos ; }
static sf_count_t v_read (void *p, sf_count_t n, void *u) { if (pos + n > flen) n = flen - pos ; if (n < 0) n = 0 ; memcpy (p, store + pos, n) ; pos += n ; return n ; }
static sf_count_t v_write (const void *p, sf_count_t n, void *u) { if (pos + n > (sf_count_t) sizeof (store)) n = sizeof (store) - pos ; memcpy (store + pos, p, n) ; pos += n ; if (pos > flen) flen = pos ; return n ; }
static sf_count_t v_tell (void *u) { return pos ; }
int main (void)
{	SF_VIRTUAL_IO vio = { v_len, v_seek, v_read, v_write, v_tell } ;
	SF_INFO info ; short buf [20] ; int res = 0 ;
	memset (&info, 0, sizeof (info)) ; info.samplerate = 8000 ; info.channels = 1 ; info.format = SF_FORMAT_RAW | SF_FORMAT_PCM_16 ;
	SNDFILE *f = sf_open_virtual (&vio, SFM_RDWR, &info, NULL) ;
	if (!f) { puts ("open failed") ; return 4 ; }
	for (int k = 0 ; k < 20 ; k++) buf [k] = k + 1 ;
	sf_write_short (f, buf, 10) ;
	sf_seek (f, 2, SEEK_SET | SFM_READ) ;
	sf_count_t rd_before = sf_seek (f, 0, SEEK_CUR | SFM_READ) ;
	sf_count_t t = sf_seek (f, 0, SEEK_CUR) ;
	sf_count_t rd_after = sf_seek (f, 0, SEEK_CUR | SFM_READ) ;
	printf ("KF2: read position %ld; sf_seek (0, SEEK_CUR) returned %ld; read position afterwards %ld\n", (long) rd_before, (long) t, (long) rd_after) ;
	if (rd_after != rd_before) res |= 1 ;
	sf_seek (f, 2, SEEK_SET | SFM_READ) ;
	fail_seek = 1 ;
	sf_count_t r = sf_seek (f, 5, SEEK_SET | SFM_READ) ;
	fail_seek = 0 ;
	sf_count_t rd = sf_seek (f, 0, SEEK_CUR | SFM_READ) ;
	printf ("KF3: failing seek returned %ld (error %d); read position afterwards %ld (was 2)\n", (long) r, sf_error (f), (long) rd) ;
	if (r == -1 && rd != 2) res |= 2 ;
	sf_seek (f, 2, SEEK_SET | SFM_READ) ;
	{	double mx = 0 ; sf_command (f, SFC_CALC_SIGNAL_MAX, &mx, sizeof (mx)) ;
		sf_count_t rd2 = sf_seek (f, 0, SEEK_CUR | SFM_READ) ;
		printf ("KF6: read position 2 before SFC_CALC_SIGNAL_MAX, %ld after (max %g)\n", (long) rd2, mx) ;
		if (rd2 != 2) res |= 4 ;
		} ;
	sf_close (f) ;
	return res ;
}
