/* C02 defect (fixed): d2i_clip_array (src/double64.c) held the scaled sample in a `float` before rounding, so
** sf_read_int on a double file with clipping enabled returned values rounded to 24 significant bits -- in-range
** samples differed from what the same call returns with clipping disabled.
** exit 0: property holds; 1: defect present.
*/
#include <stdio.h>
#include <string.h>
#include <sndfile.h>

int main (void)
{	const char *path = "kf_d2i_clip_float_tmp.wav" ;
	double data [4] = { 1.0, 0.123456789, -0.987654321, 0.5 } ;
	SF_INFO info ; memset (&info, 0, sizeof (info)) ;
	info.samplerate = 8000 ; info.channels = 1 ; info.format = SF_FORMAT_WAV | SF_FORMAT_DOUBLE ;
	SNDFILE *w = sf_open (path, SFM_WRITE, &info) ;
	if (!w || sf_write_double (w, data, 4) != 4) return 3 ;
	sf_close (w) ;
	int plain [4], clipped [4] ;
	for (int pass = 0 ; pass < 2 ; pass++)
	{	memset (&info, 0, sizeof (info)) ;
		SNDFILE *r = sf_open (path, SFM_READ, &info) ;
		if (!r) return 3 ;
		sf_command (r, SFC_SET_SCALE_FLOAT_INT_READ, NULL, SF_TRUE) ;
		sf_command (r, SFC_SET_CLIPPING, NULL, pass ? SF_TRUE : SF_FALSE) ;
		if (sf_read_int (r, pass ? clipped : plain, 4) != 4) return 3 ;
		sf_close (r) ;
		} ;
	remove (path) ;
	int bad = 0 ;
	for (int k = 1 ; k < 4 ; k++)		/* item 0 is full scale: the one value clipping may change */
	{	printf ("item %d: clipping off %d, clipping on %d\n", k, plain [k], clipped [k]) ;
		if (plain [k] != clipped [k]) bad = 1 ;
		} ;
	puts (bad ? "DEFECT: enabling clipping changes in-range samples" : "ok") ;
	return bad ;
}
