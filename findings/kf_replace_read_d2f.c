/* C05 defect (fixed): replace_read_d2f (src/double64.c) copied bufferlen * sizeof (double) bytes of the staging
** buffer into the caller's FLOAT buffer with memcpy: twice the requested region is written, and the values are
** the bytes of doubles, not converted floats.  Reached through the public API with the documented test command
** SFC_TEST_IEEE_FLOAT_REPLACE (the code path every non-IEEE host uses).
** exit 0: property holds; non-zero / ASan report: defect present.
*/
#include <stdio.h>
#include <stdlib.h>
#include <string.h>
#include <sndfile.h>

int main (void)
{	const char *path = "kf_replace_read_d2f.au" ;
	SF_INFO info ; memset (&info, 0, sizeof (info)) ;
	info.samplerate = 8000 ; info.channels = 1 ; info.format = SF_FORMAT_AU | SF_FORMAT_DOUBLE ;
	SNDFILE *w = sf_open (path, SFM_WRITE, &info) ;
	if (!w) return 3 ;
	double src [64] ;
	for (int k = 0 ; k < 64 ; k++) src [k] = (k - 32) / 64.0 ;
	if (sf_write_double (w, src, 64) != 64) return 3 ;
	sf_close (w) ;

	memset (&info, 0, sizeof (info)) ;
	SNDFILE *r = sf_open (path, SFM_READ, &info) ;
	if (!r) return 3 ;
	sf_command (r, SFC_TEST_IEEE_FLOAT_REPLACE, NULL, SF_TRUE) ;
	float *dst = malloc (64 * sizeof (float)) ;		/* exactly the requested region */
	sf_count_t got = sf_read_float (r, dst, 64) ;
	int bad = (got != 64) ;
	for (int k = 0 ; k < 64 && !bad ; k++)
		if (dst [k] != (float) src [k]) { printf ("item %d: got %g expected %g\n", k, dst [k], (float) src [k]) ; bad = 1 ; }
	sf_close (r) ; free (dst) ; remove (path) ;
	puts (bad ? "DEFECT: sf_read_float through the portable double reader returns wrong data" : "ok") ;
	return bad ;
}
