/* T6 (DESIGN 3.10), used by plain header units that link src/common.c: libsndfile passes `int` arguments where
** psf_binheader_readf / writef fetch `va_arg (ap, size_t)`.  On the SysV x86-64 ABI the callee then reads the
** 8-byte slot whose low half is the int (upper half: zero in every compiler's code for constants and 32-bit moves) and
** every consumer in common.c narrows the value to int or uses it as a small size.  CBMC models each variadic argument
** as an object of its own type, so the 8-byte fetch of a 4-byte object yields an unconstrained value.  This header
** makes the fetch of a size_t read the low 32 bits (zero-extended): exactly the value the ABI delivers for
** arguments below 2^32, for both int-typed and size_t-typed actual arguments on a little-endian target.
*/
#ifndef VERIF_ABI_VAARG_H
#define VERIF_ABI_VAARG_H
#include <stdarg.h>
#include <stddef.h>
#undef va_arg
#define va_arg(ap, T)	__builtin_choose_expr (__builtin_types_compatible_p (T, size_t), \
							(size_t) (unsigned) __builtin_va_arg (ap, int), __builtin_va_arg (ap, T))
#endif
