/* Environment models (trusted base E1): bodies for libc functions that CBMC
** either does not model or cannot instrument.  Each model is deliberately
** *weaker* than the real function (it may write anything the real function may
** write, returns any value the real one may return), and it checks the
** caller-side obligation the C standard puts on the call (buffer writable for
** the stated size).  These are models of code outside the repository; they are
** listed in every evidence file that uses them.
** Nondeterministic values come from uninitialised locals (DFCC treats
** body-less functions as unreachable).
*/
#ifndef VERIF_ENV_STUBS_H
#define VERIF_ENV_STUBS_H
#include "env_pre.h"

/* snprintf/vsnprintf: writes at most n bytes into str, NUL terminates when n >= 1,
** returns a non-negative count (the length the full output would have had). */
int verif_snprintf (char *str, size_t n)
{
#ifdef VERIF_SNPRINTF_RECORD
	g_fmt_size = n ; g_fmt_dst = str ;	/* ghost: lets the strlen model of the unit find the terminator */
#endif
	if (n > 0)
	{	__CPROVER_assert (__CPROVER_w_ok (str, n), "E1 snprintf: destination writable for n bytes") ;
		__CPROVER_havoc_slice (str, n) ;
		size_t k_nd ; size_t k = k_nd ;
		__CPROVER_assume (k < n) ;
		str [k] = 0 ;
		} ;
	int r_nd ; int r = r_nd ;
	__CPROVER_assume (r >= 0) ;
	return r ;
}

#endif
