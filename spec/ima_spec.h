/* The IMA ADPCM reference algorithm (IMA Digital Audio Focus and Technical Working Groups, "Recommended Practices
** for Enhancing Digital Audio Compatibility in Multimedia Systems", rev 3.00, 1992), written from the
** specification, independent of src/ima_adpcm.c: step size table, index adjustment table, one decode step. */
#ifndef VERIF_IMA_SPEC_H
#define VERIF_IMA_SPEC_H

static const int IMA_REF_STEP [89] =
{	7, 8, 9, 10, 11, 12, 13, 14, 16, 17, 19, 21, 23, 25, 28, 31,
	34, 37, 41, 45, 50, 55, 60, 66, 73, 80, 88, 97, 107, 118, 130, 143,
	157, 173, 190, 209, 230, 253, 279, 307, 337, 371, 408, 449, 494, 544, 598, 658,
	724, 796, 876, 963, 1060, 1166, 1282, 1411, 1552, 1707, 1878, 2066, 2272, 2499, 2749, 3024,
	3327, 3660, 4026, 4428, 4871, 5358, 5894, 6484, 7132, 7845, 8630, 9493, 10442, 11487, 12635, 13899,
	15289, 16818, 18500, 20350, 22385, 24623, 27086, 29794, 32767
} ;
static const int IMA_REF_ADJ [16] = { -1, -1, -1, -1, 2, 4, 6, 8, -1, -1, -1, -1, 2, 4, 6, 8 } ;

#define IMA_CLAMP_INDEX(i)	((i) < 0 ? 0 : (i) > 88 ? 88 : (i))
#define IMA_CLAMP16(v)		((v) > 32767 ? 32767 : (v) < -32768 ? -32768 : (v))
/* difference for a 4 bit code at a given step size: (code.magnitude + 1/2) * step / 4 in the integer form of the standard */
#define IMA_DIFF_MAG(step, c)	(((step) >> 3) + (((c) & 1) ? ((step) >> 2) : 0) + (((c) & 2) ? ((step) >> 1) : 0) + (((c) & 4) ? (step) : 0))
#define IMA_DIFF(step, c)		(((c) & 8) ? - IMA_DIFF_MAG ((step), (c)) : IMA_DIFF_MAG ((step), (c)))
#define IMA_NEXT_SAMPLE(pred, index, c)	IMA_CLAMP16 ((int) (pred) + IMA_DIFF (IMA_REF_STEP [index], (c)))
#define IMA_NEXT_INDEX(index, c)		IMA_CLAMP_INDEX ((index) + IMA_REF_ADJ [(c) & 15])

#endif
