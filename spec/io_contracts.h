/* Contracts of the I/O primitives of src/file_io.c as the rest of the library sees them
** ("abstraction (A)" of DESIGN section 4): every call may transfer fewer items than asked
** (including none), may fail, may set the error; a seek may fail; nothing else of the handle
** changes.  Tail frame: the destination is havocked from `ptr` to the end of its object
** (a replaced contract must not havoc a symbolic-length slice: measured out of memory).
** Enforced on the real functions in the file_io units.
*/
#ifndef VERIF_IO_CONTRACTS_H
#define VERIF_IO_CONTRACTS_H

#ifndef IO_LEN_MAX
#define IO_LEN_MAX (1LL << 28)
#endif

/* With IO_CONTRACT_ENFORCE (file_io units: the contract is ENFORCED on the real function) the ghost bookkeeping
** clauses are left out: the real code does not maintain ghost state.  The remaining clauses are identical. */
#ifdef IO_CONTRACT_ENFORCE
#define IO_GHOST(x)
#ifndef IO_ENV_TARGETS
#define IO_ENV_TARGETS
#endif
#define IO_GHOST_TARGET		IO_ENV_TARGETS
/* enforcement: the pointer preconditions are established with is_fresh, and the handle is a concrete one */
#define IO_WOK(p, n)		__CPROVER_is_fresh ((p), (n))
#define IO_ROK(p, n)		__CPROVER_is_fresh ((p), (n))
#define IO_PSF(psf)			IO_ENFORCE_HANDLE (psf)
#else
#define IO_GHOST(x)			x
#define IO_GHOST_TARGET		, __CPROVER_object_whole (&gio)
#define IO_WOK(p, n)		__CPROVER_w_ok ((p), (n))
#define IO_ROK(p, n)		__CPROVER_r_ok ((p), (n))
#define IO_PSF(psf)			__CPROVER_r_ok ((psf), sizeof (SF_PRIVATE))
#endif

struct verif_io_ghost
{	int io_short ;			/* some transfer was short */
	unsigned fread_calls, fwrite_calls, fseek_calls ;	/* unsigned: wrap-around is harmless for a counter */
	sf_count_t last_fread_ret ;
} gio ;

sf_count_t psf_fread (void *ptr, sf_count_t bytes, sf_count_t items, SF_PRIVATE *psf)
__CPROVER_requires (bytes > 0 && bytes <= 8 && items >= 0 && items <= IO_LEN_MAX)
__CPROVER_requires (items == 0 || IO_WOK (ptr, (size_t) (bytes * items)))
__CPROVER_requires (IO_PSF (psf))
__CPROVER_assigns (psf->error, psf->pipeoffset, psf->syserr IO_GHOST_TARGET; items > 0: __CPROVER_object_from (ptr))
__CPROVER_ensures (0 <= __CPROVER_return_value && __CPROVER_return_value <= items) /*@C14.fread_count_in_range_on_every_route*/ /*@C15.fread_count_in_range*/
__CPROVER_ensures (__CPROVER_return_value == items ==> psf->error == __CPROVER_old (psf->error)) /*@C15.full_transfer_sets_no_error*/
IO_GHOST (__CPROVER_ensures (gio.fread_calls == __CPROVER_old (gio.fread_calls) + 1 && gio.fwrite_calls == __CPROVER_old (gio.fwrite_calls) && gio.fseek_calls == __CPROVER_old (gio.fseek_calls)))
IO_GHOST (__CPROVER_ensures (gio.last_fread_ret == __CPROVER_return_value))
IO_GHOST (__CPROVER_ensures (__CPROVER_return_value == items ? gio.io_short == __CPROVER_old (gio.io_short) : gio.io_short == 1))
;
sf_count_t psf_fwrite (const void *ptr, sf_count_t bytes, sf_count_t items, SF_PRIVATE *psf)
__CPROVER_requires (bytes > 0 && bytes <= 8 && items >= 0 && items <= IO_LEN_MAX)
__CPROVER_requires (items == 0 || IO_ROK (ptr, (size_t) (bytes * items)))
__CPROVER_requires (IO_PSF (psf))
__CPROVER_assigns (psf->error, psf->pipeoffset, psf->syserr IO_GHOST_TARGET)
__CPROVER_ensures (0 <= __CPROVER_return_value && __CPROVER_return_value <= items) /*@C14.fwrite_count_in_range_on_every_route*/ /*@C15.fwrite_count_in_range*/
__CPROVER_ensures (__CPROVER_return_value == items ==> psf->error == __CPROVER_old (psf->error)) /*@C15.full_transfer_sets_no_error*/
IO_GHOST (__CPROVER_ensures (gio.fwrite_calls == __CPROVER_old (gio.fwrite_calls) + 1 && gio.fread_calls == __CPROVER_old (gio.fread_calls) && gio.fseek_calls == __CPROVER_old (gio.fseek_calls)))
IO_GHOST (__CPROVER_ensures (__CPROVER_return_value == items ? gio.io_short == __CPROVER_old (gio.io_short) : gio.io_short == 1))
;
sf_count_t psf_fseek (SF_PRIVATE *psf, sf_count_t offset, int whence)
__CPROVER_requires (IO_PSF (psf) && -(1LL << 50) <= offset && offset <= (1LL << 50))
__CPROVER_assigns (psf->error, psf->pipeoffset, psf->syserr IO_GHOST_TARGET)
IO_GHOST (__CPROVER_ensures (gio.fseek_calls == __CPROVER_old (gio.fseek_calls) + 1 && gio.fread_calls == __CPROVER_old (gio.fread_calls) && gio.fwrite_calls == __CPROVER_old (gio.fwrite_calls) && gio.io_short == __CPROVER_old (gio.io_short)))
;
sf_count_t psf_ftell (SF_PRIVATE *psf)
__CPROVER_requires (IO_PSF (psf))
__CPROVER_assigns (psf->error, psf->syserr IO_GHOST_TARGET)
;
#endif
