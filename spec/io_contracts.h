/* Contracts of the I/O primitives of src/file_io.c as the rest of the library sees them
** ("abstraction (A)" of DESIGN section 4): every call may transfer fewer items than asked
** (including none), may fail, may set the error; a seek may fail; nothing else of the handle
** changes.  Tail frame: the destination is havocked from `ptr` to the end of its object
** (a replaced contract must not havoc a symbolic-length slice: measured out of memory).
** Enforced on the real functions in the file_io units.
*/
#ifndef VERIF_IO_CONTRACTS_H
#define VERIF_IO_CONTRACTS_H

#ifndef IO_LEN_MAX
#define IO_LEN_MAX (1LL << 28)
#endif

struct verif_io_ghost
{	int io_short ;			/* some transfer was short */
	unsigned fread_calls, fwrite_calls, fseek_calls ;	/* unsigned: wrap-around is harmless for a counter */
	sf_count_t last_fread_ret ;
} gio ;

sf_count_t psf_fread (void *ptr, sf_count_t bytes, sf_count_t items, SF_PRIVATE *psf)
__CPROVER_requires (bytes > 0 && bytes <= 8 && items >= 0 && items <= IO_LEN_MAX)
__CPROVER_requires (items == 0 || __CPROVER_w_ok (ptr, (size_t) (bytes * items)))
__CPROVER_requires (__CPROVER_r_ok (psf, sizeof (SF_PRIVATE)))
__CPROVER_assigns (psf->error, psf->pipeoffset, __CPROVER_object_whole (&gio); items > 0: __CPROVER_object_from (ptr))
__CPROVER_ensures (0 <= __CPROVER_return_value && __CPROVER_return_value <= items)
__CPROVER_ensures (gio.fread_calls == __CPROVER_old (gio.fread_calls) + 1 && gio.fwrite_calls == __CPROVER_old (gio.fwrite_calls) && gio.fseek_calls == __CPROVER_old (gio.fseek_calls))
__CPROVER_ensures (gio.last_fread_ret == __CPROVER_return_value)
__CPROVER_ensures (__CPROVER_return_value == items ? (psf->error == __CPROVER_old (psf->error) && gio.io_short == __CPROVER_old (gio.io_short)) : gio.io_short == 1)
;
sf_count_t psf_fwrite (const void *ptr, sf_count_t bytes, sf_count_t items, SF_PRIVATE *psf)
__CPROVER_requires (bytes > 0 && bytes <= 8 && items >= 0 && items <= IO_LEN_MAX)
__CPROVER_requires (items == 0 || __CPROVER_r_ok (ptr, (size_t) (bytes * items)))
__CPROVER_requires (__CPROVER_r_ok (psf, sizeof (SF_PRIVATE)))
__CPROVER_assigns (psf->error, psf->pipeoffset, __CPROVER_object_whole (&gio))
__CPROVER_ensures (0 <= __CPROVER_return_value && __CPROVER_return_value <= items)
__CPROVER_ensures (gio.fwrite_calls == __CPROVER_old (gio.fwrite_calls) + 1 && gio.fread_calls == __CPROVER_old (gio.fread_calls) && gio.fseek_calls == __CPROVER_old (gio.fseek_calls))
__CPROVER_ensures (__CPROVER_return_value == items ? (psf->error == __CPROVER_old (psf->error) && gio.io_short == __CPROVER_old (gio.io_short)) : gio.io_short == 1)
;
sf_count_t psf_fseek (SF_PRIVATE *psf, sf_count_t offset, int whence)
__CPROVER_requires (__CPROVER_r_ok (psf, sizeof (SF_PRIVATE)))
__CPROVER_assigns (psf->error, psf->pipeoffset, __CPROVER_object_whole (&gio))
__CPROVER_ensures (gio.fseek_calls == __CPROVER_old (gio.fseek_calls) + 1 && gio.fread_calls == __CPROVER_old (gio.fread_calls) && gio.fwrite_calls == __CPROVER_old (gio.fwrite_calls) && gio.io_short == __CPROVER_old (gio.io_short))
__CPROVER_ensures (__CPROVER_return_value >= -1)
;
sf_count_t psf_ftell (SF_PRIVATE *psf)
__CPROVER_requires (__CPROVER_r_ok (psf, sizeof (SF_PRIVATE)))
__CPROVER_assigns (psf->error)
__CPROVER_ensures (__CPROVER_return_value >= -1)
;
#endif
