/* Included BEFORE the real libsndfile source of a unit.  Redirects the variadic
** libc formatters to non-variadic models (DFCC cannot instrument variadic
** functions with a body: measured, spurious write-set failures).  The format
** string and the values formatted are not evaluated; the model (env_stubs.h)
** writes arbitrary bytes within the stated size and NUL-terminates.  Trusted
** base E1. */
#ifndef VERIF_ENV_PRE_H
#define VERIF_ENV_PRE_H
#include <stdio.h>
#include <stddef.h>
#include <stdarg.h>
#include <string.h>
#include <stdlib.h>

int verif_snprintf (char *str, size_t n) ;
#define snprintf(s, n, ...)		verif_snprintf ((s), (n))
#define vsnprintf(s, n, f, ap)	verif_snprintf ((s), (n))

#endif
