/* Specification vocabulary for integer PCM sample conversion.
**
** Written from docs/api.md ("Note 1/2": integer conversions keep the most
** significant bits; unsigned 8 bit is offset by 128) and from the statement
** of property C02 -- not from src/pcm.c.  A stored sample is described by
** its bytes in file order; ST_<enc>(p,k) is the signed integer value that
** those bytes denote, PUT_<enc>(p,k,v) says "element k of p holds the w-bit
** two's complement value v in that byte order".
*/
#ifndef VERIF_PCM_SPEC_H
#define VERIF_PCM_SPEC_H

#define SPEC_B(p, k, n)		((unsigned int) (((const unsigned char *) &((p) [k])) [n]))

/* value denoted by the stored bytes (sign extended) */
#define SX8(u)		((int) (signed char) (unsigned char) ((u) & 0xFFu))
#define SX16(u)		((int) (short) (unsigned short) ((u) & 0xFFFFu))
#define SX24(u)		(((int) (((unsigned int) (u)) << 8)) >> 8)
#define SX32(u)		((int) (unsigned int) (u))

#define ST_sc(p, k)		SX8 (SPEC_B (p, k, 0))
#define ST_uc(p, k)		((int) SPEC_B (p, k, 0) - 128)
#define ST_bes(p, k)	SX16 ((SPEC_B (p, k, 0) << 8) | SPEC_B (p, k, 1))
#define ST_les(p, k)	SX16 ((SPEC_B (p, k, 1) << 8) | SPEC_B (p, k, 0))
#define ST_bet(p, k)	SX24 ((SPEC_B (p, k, 0) << 16) | (SPEC_B (p, k, 1) << 8) | SPEC_B (p, k, 2))
#define ST_let(p, k)	SX24 ((SPEC_B (p, k, 2) << 16) | (SPEC_B (p, k, 1) << 8) | SPEC_B (p, k, 0))
#define ST_bei(p, k)	SX32 ((SPEC_B (p, k, 0) << 24) | (SPEC_B (p, k, 1) << 16) | (SPEC_B (p, k, 2) << 8) | SPEC_B (p, k, 3))
#define ST_lei(p, k)	SX32 ((SPEC_B (p, k, 3) << 24) | (SPEC_B (p, k, 2) << 16) | (SPEC_B (p, k, 1) << 8) | SPEC_B (p, k, 0))

/* width in bits of each stored encoding */
#define W_sc 8
#define W_uc 8
#define W_bes 16
#define W_les 16
#define W_bet 24
#define W_let 24
#define W_bei 32
#define W_lei 32

/* the w-bit two's complement pattern of v, as unsigned */
#define PAT(v, w)	((unsigned int) (v) & (unsigned int) ((w) == 32 ? 0xFFFFFFFFu : ((1u << ((w) & 31)) - 1u)))

#define PUT_sc(p, k, v)		(SPEC_B (p, k, 0) == PAT (v, 8))
#define PUT_uc(p, k, v)		(SPEC_B (p, k, 0) == PAT ((v) + 128, 8))
#define PUT_bes(p, k, v)	(SPEC_B (p, k, 0) == (PAT (v, 16) >> 8) && SPEC_B (p, k, 1) == (PAT (v, 16) & 0xFF))
#define PUT_les(p, k, v)	(SPEC_B (p, k, 1) == (PAT (v, 16) >> 8) && SPEC_B (p, k, 0) == (PAT (v, 16) & 0xFF))
#define PUT_bet(p, k, v)	(SPEC_B (p, k, 0) == (PAT (v, 24) >> 16) && SPEC_B (p, k, 1) == ((PAT (v, 24) >> 8) & 0xFF) && SPEC_B (p, k, 2) == (PAT (v, 24) & 0xFF))
#define PUT_let(p, k, v)	(SPEC_B (p, k, 2) == (PAT (v, 24) >> 16) && SPEC_B (p, k, 1) == ((PAT (v, 24) >> 8) & 0xFF) && SPEC_B (p, k, 0) == (PAT (v, 24) & 0xFF))
#define PUT_bei(p, k, v)	(SPEC_B (p, k, 0) == (PAT (v, 32) >> 24) && SPEC_B (p, k, 1) == ((PAT (v, 32) >> 16) & 0xFF) && SPEC_B (p, k, 2) == ((PAT (v, 32) >> 8) & 0xFF) && SPEC_B (p, k, 3) == (PAT (v, 32) & 0xFF))
#define PUT_lei(p, k, v)	(SPEC_B (p, k, 3) == (PAT (v, 32) >> 24) && SPEC_B (p, k, 2) == ((PAT (v, 32) >> 16) & 0xFF) && SPEC_B (p, k, 1) == ((PAT (v, 32) >> 8) & 0xFF) && SPEC_B (p, k, 0) == (PAT (v, 32) & 0xFF))

/* Integer <-> integer rule of the documentation: keep the most significant
** bits.  Widening from w to W bits multiplies by 2^(W-w) (zero padding),
** narrowing is the arithmetic (floor) shift by w-W bits. */
#define WIDEN(v, w, W)		((int) ((long long) (v) * (1LL << ((W) - (w)))))
#define NARROW(v, w, W)		((int) (v) >> ((w) - (W)))	/* arithmetic shift: floor, i.e. the w-W low bits are dropped */

/* float/double rules */
#define INTMAX_W(w)		((w) == 32 ? 2147483647 : ((1 << ((w) - 1)) - 1))
#define INTMIN_W(w)		(- INTMAX_W (w) - 1)

#endif
