/* Ghost state shared by all units.  Nothing here is libsndfile text. */
#ifndef VERIF_GHOST_H
#define VERIF_GHOST_H

/* An arbitrary element index.  The harness havocs it once before the call
** and nothing assigns it afterwards, so a clause proved about element g_idx
** is proved for every element (used instead of __CPROVER_forall, which the
** SAT back end cannot take). */
int g_idx ;
int g_idx2 ;

#define GHOST_HAVOC()	do { int ghost_nd1, ghost_nd2 ; g_idx = ghost_nd1 ; g_idx2 = ghost_nd2 ; } while (0)

#ifdef NATIVE_REPLAY
/* native self replay (spec/native_shim.h): inputs take the counterexample's bit pattern, witnesses are no-ops */
#define CANARY()			do { } while (0)
#define REACH(cond, txt)	do { } while (0)
#define INPUT(T, n)			T n ; do { unsigned long long verif_bits = REPLAY_BITS_##n ; memcpy (&n, &verif_bits, sizeof (n)) ; } while (0)
void NATIVE_ENTRY (void) ;
int main (void) { NATIVE_ENTRY () ; puts ("not reproduced") ; return 0 ; }
#else
/* every harness ends with this: it must FAIL, otherwise the unit is vacuous */
#define CANARY()		__CPROVER_assert (0, "canary")
/* per-case reachability witness: must FAIL too */
#define REACH(cond, txt)	do { if (cond) __CPROVER_assert (0, "expected-failure: " txt) ; } while (0)
/* an unconstrained harness input (replayable: see NATIVE_REPLAY above) */
#define INPUT(T, n)			T n
#endif

#endif
