/* Generic contracts of the SF_PRIVATE function-pointer table ("dispatch
** contracts").  Callers (src/sndfile.c, src/command.c) are verified against
** these through __CPROVER_obeys_contract; every implementation that has an
** enforcement unit is verified against the *same* contract with
** --enforce-contract impl/contract.
**
** Included after the real source of the unit (needs SF_PRIVATE).
*/
#ifndef VERIF_DISPATCH_H
#define VERIF_DISPATCH_H

#include "ghost.h"

/* upper bound on item counts in one call: keeps sf_count_t arithmetic overflow free and
** objects below CBMC's maximum object size; stated as an assumption in the evidence */
#define LEN_MAX			(1LL << 28)
#define FRAMES_MAX		(1LL << 47)

/* ghost results of the dispatch calls made by the function under verification (assigned by the
** contracts below); one object so that it costs one assigns target */
struct verif_dispatch_ghost
{	sf_count_t	codec_ret ;		/* items the codec reported */
	int			codec_calls ;	/* number of codec read/write calls */
	int			seek_calls ;
	int			hdr_calls ;		/* number of write_header calls */
	sf_count_t	seek_arg ;		/* last position asked of psf->seek */
	int			seek_mode ;
} gd ;
#define g_codec_ret		gd.codec_ret
#define g_codec_calls	gd.codec_calls
#define g_seek_calls	gd.seek_calls
#define g_hdr_calls		gd.hdr_calls
#define g_seek_arg		gd.seek_arg
#define g_seek_mode		gd.seek_mode
/* ghost stream: the value of item g_idx of the data the codec delivers in this call */
long long	g_item_bits ;

#define SAME_BITS(lv, T)	(*(const T *) &(lv))

/* the part of SF_PRIVATE a codec read/write/seek may change */
#define CODEC_FRAME(psf)	(psf)->error, (psf)->pipeoffset, __CPROVER_object_whole (&gd)

#define DECL_CODEC_READ(T, UT, NAME)	\
sf_count_t NAME (SF_PRIVATE *psf, T *ptr, sf_count_t len)	\
__CPROVER_requires (__CPROVER_r_ok (psf, sizeof (SF_PRIVATE)))	\
__CPROVER_requires (len > 0 && len <= LEN_MAX)	\
__CPROVER_requires (__CPROVER_w_ok (ptr, (size_t) len * sizeof (T)))	\
__CPROVER_assigns (CODEC_FRAME (psf), __CPROVER_object_from (ptr))	\
__CPROVER_ensures (0 <= __CPROVER_return_value && __CPROVER_return_value <= len)	\
__CPROVER_ensures (g_codec_ret == __CPROVER_return_value && g_codec_calls == __CPROVER_old (g_codec_calls) + 1)	\
__CPROVER_ensures (g_seek_calls == __CPROVER_old (g_seek_calls) && g_hdr_calls == __CPROVER_old (g_hdr_calls) && g_seek_arg == __CPROVER_old (g_seek_arg) && g_seek_mode == __CPROVER_old (g_seek_mode))	\
__CPROVER_ensures (__CPROVER_return_value == len ==> psf->error == __CPROVER_old (psf->error))	\
__CPROVER_ensures ((0 <= g_idx && g_idx < __CPROVER_return_value) ==> SAME_BITS (ptr [g_idx], UT) == (UT) g_item_bits)	\
;

DECL_CODEC_READ (short, uint16_t, codec_read_short_c)
DECL_CODEC_READ (int, uint32_t, codec_read_int_c)
DECL_CODEC_READ (float, uint32_t, codec_read_float_c)
DECL_CODEC_READ (double, uint64_t, codec_read_double_c)

#define DECL_CODEC_WRITE(T, NAME)	\
sf_count_t NAME (SF_PRIVATE *psf, const T *ptr, sf_count_t len)	\
__CPROVER_requires (__CPROVER_r_ok (psf, sizeof (SF_PRIVATE)))	\
__CPROVER_requires (len > 0 && len <= LEN_MAX)	\
__CPROVER_requires (__CPROVER_r_ok (ptr, (size_t) len * sizeof (T)))	\
__CPROVER_assigns (CODEC_FRAME (psf))	\
__CPROVER_ensures (0 <= __CPROVER_return_value && __CPROVER_return_value <= len)	\
__CPROVER_ensures (g_codec_ret == __CPROVER_return_value && g_codec_calls == __CPROVER_old (g_codec_calls) + 1)	\
__CPROVER_ensures (g_seek_calls == __CPROVER_old (g_seek_calls) && g_hdr_calls == __CPROVER_old (g_hdr_calls) && g_seek_arg == __CPROVER_old (g_seek_arg) && g_seek_mode == __CPROVER_old (g_seek_mode))	\
__CPROVER_ensures (__CPROVER_return_value == len ==> psf->error == __CPROVER_old (psf->error))	\
;

DECL_CODEC_WRITE (short, codec_write_short_c)
DECL_CODEC_WRITE (int, codec_write_int_c)
DECL_CODEC_WRITE (float, codec_write_float_c)
DECL_CODEC_WRITE (double, codec_write_double_c)

/* seek: the requested position, or a failure (PSF_SEEK_ERROR with psf->error set) */
sf_count_t codec_seek_c (SF_PRIVATE *psf, int mode, sf_count_t samples_from_start)
__CPROVER_requires (__CPROVER_r_ok (psf, sizeof (SF_PRIVATE)))
__CPROVER_requires (samples_from_start >= 0)
__CPROVER_requires (mode == SFM_READ || mode == SFM_WRITE || mode == SFM_RDWR)
__CPROVER_assigns (psf->error, psf->pipeoffset, __CPROVER_object_whole (&gd))
__CPROVER_ensures (g_seek_calls == __CPROVER_old (g_seek_calls) + 1 && g_seek_arg == samples_from_start && g_seek_mode == mode)
__CPROVER_ensures (g_codec_calls == __CPROVER_old (g_codec_calls) && g_hdr_calls == __CPROVER_old (g_hdr_calls) && g_codec_ret == __CPROVER_old (g_codec_ret))
__CPROVER_ensures (__CPROVER_return_value == samples_from_start || (__CPROVER_return_value == PSF_SEEK_ERROR && psf->error != 0))
__CPROVER_ensures (__CPROVER_return_value == samples_from_start ==> psf->error == __CPROVER_old (psf->error))
;

/* write_header: only the header cache, the file and the error code */
int container_write_header_c (SF_PRIVATE *psf, int calc_length)
__CPROVER_requires (__CPROVER_r_ok (psf, sizeof (SF_PRIVATE)))
__CPROVER_assigns (psf->error, psf->header.indx, psf->header.end, psf->dataoffset, psf->datalength, psf->filelength, __CPROVER_object_whole (&gd))
__CPROVER_ensures (g_hdr_calls == __CPROVER_old (g_hdr_calls) + 1)
__CPROVER_ensures (g_codec_calls == __CPROVER_old (g_codec_calls) && g_seek_calls == __CPROVER_old (g_seek_calls) && g_codec_ret == __CPROVER_old (g_codec_ret)
					&& g_seek_arg == __CPROVER_old (g_seek_arg) && g_seek_mode == __CPROVER_old (g_seek_mode))
;

#define KEEP_CONTRACT_ADDRESSES()	do { \
	void *keep_c [] = { (void *) codec_read_short_c, (void *) codec_read_int_c, (void *) codec_read_float_c, (void *) codec_read_double_c, \
		(void *) codec_write_short_c, (void *) codec_write_int_c, (void *) codec_write_float_c, (void *) codec_write_double_c, \
		(void *) codec_seek_c, (void *) container_write_header_c } ; (void) keep_c ; } while (0)

#endif
