/* Native (self) replay of a plain lemma unit: the unit's own harness is compiled by clang with ASan/UBSan against the
** real source; the inputs declared with INPUT (type, name) take the bit patterns of the verifier's counterexample
** (vin.h), a failing __CPROVER_assert reports and exits 1, a failing __CPROVER_assume leaves with 0. */
#ifndef VERIF_NATIVE_SHIM_H
#define VERIF_NATIVE_SHIM_H
#include <stdio.h>
#include <stdlib.h>
#include <string.h>
#define __CPROVER_assert(c, msg)	do { if (!(c)) { printf ("REPRODUCED: %s\n", msg) ; exit (1) ; } } while (0)
#define __CPROVER_assume(c)			do { if (!(c)) { puts ("counterexample outside the harness assumptions") ; exit (0) ; } } while (0)
#include <math.h>
/* the IEEE operations the specification macros name: default rounding mode (to nearest even), as in the CBMC runs */
#define __CPROVER_rounding_mode					0
#define __CPROVER_round_to_integrald(x, m)		rint (x)
#define __CPROVER_round_to_integralf(x, m)		rintf (x)
#define __CPROVER_fabs(x)						fabs (x)
#define __CPROVER_fabsf(x)						fabsf (x)
#define __CPROVER_isnand(x)						isnan (x)
#define __CPROVER_isnanf(x)						isnan (x)
#define __CPROVER_r_ok(p, n)		1
#define __CPROVER_w_ok(p, n)		1
/* main () comes with ghost.h, which only the harness includes (this header is force-included into every source) */
#endif
