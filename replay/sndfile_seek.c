/* Native replay for unit sndfile.sf_seek: real sf_seek on a real SF_PRIVATE filled from the
** counterexample; psf->seek is a stub that behaves as the generic contract allows (succeeds,
** or fails with -1 and an error when the counterexample says the codec seek failed). */
#include "sndfile.c"
#include "vin.h"
#ifndef VIN_FRAMES
#define VIN_FRAMES 100
#endif
#ifndef VIN_RC
#define VIN_RC 3
#endif
#ifndef VIN_WC
#define VIN_WC 10
#endif
#ifndef VIN_OFFSET
#define VIN_OFFSET 0
#endif
#ifndef VIN_WHENCE
#define VIN_WHENCE SEEK_CUR
#endif
#ifndef VIN_MODE
#define VIN_MODE SFM_RDWR
#endif
#ifndef VIN_LAST_OP
#define VIN_LAST_OP 0
#endif
#ifndef VIN_ERROR
#define VIN_ERROR 0
#endif
#ifndef REPLAY_RET
#define REPLAY_RET 0
#endif
static int seek_calls ;
static sf_count_t stub_seek (SF_PRIVATE *psf, int mode, sf_count_t pos)
{	seek_calls ++ ;
	if (REPLAY_RET == -1) { psf->error = SFE_BAD_SEEK ; return PSF_SEEK_ERROR ; }
	return pos ;
}
int main (void)
{	SF_PRIVATE *psf = calloc (1, sizeof (SF_PRIVATE)) ; int bad = 0 ;
	psf->Magick = SNDFILE_MAGICK ; psf->virtual_io = SF_TRUE ; psf->sf.channels = 2 ; psf->sf.seekable = 1 ;
	psf->sf.frames = VIN_FRAMES ; psf->read_current = VIN_RC ; psf->write_current = VIN_WC ;
	psf->file.mode = VIN_MODE ; psf->last_op = VIN_LAST_OP ; psf->seek = stub_seek ; psf->error = VIN_ERROR ;
	sf_count_t r = sf_seek ((SNDFILE *) psf, VIN_OFFSET, VIN_WHENCE) ;
	printf ("sf_seek (offset %ld, whence %d) mode %d frames %ld rc %ld wc %ld codec_seek_%s -> ret %ld read_current %ld write_current %ld error %d\n",
		(long) VIN_OFFSET, VIN_WHENCE, VIN_MODE, (long) VIN_FRAMES, (long) VIN_RC, (long) VIN_WC, REPLAY_RET == -1 ? "fails" : "ok",
		(long) r, (long) psf->read_current, (long) psf->write_current, psf->error) ;
	if (r == -1 && (psf->read_current != VIN_RC || psf->write_current != VIN_WC))
	{	printf ("POSTCONDITION VIOLATED (failed_seek_changes_no_position)\n") ; bad = 1 ; }
	if (VIN_WHENCE == SEEK_CUR && VIN_OFFSET == 0 && (psf->read_current != VIN_RC || psf->write_current != VIN_WC))
	{	printf ("POSTCONDITION VIOLATED (tell changes a position)\n") ; bad = 1 ; }
	if (r != -1 && psf->error != 0) { printf ("POSTCONDITION VIOLATED (successful_seek_leaves_no_error): stale error %d survives a successful call\n", psf->error) ; bad = 1 ; }
	if (r == -1 && seek_calls == 0 && VIN_ERROR != 0 && psf->error == VIN_ERROR)
	{	printf ("POSTCONDITION VIOLATED: the call failed only because of the stale error %d left by an earlier call\n", VIN_ERROR) ; bad = 1 ; }
	if (r == -1 && psf->error == 0) { printf ("POSTCONDITION VIOLATED (seek_failure_sets_error)\n") ; bad = 1 ; }
	return bad ;
}
