/* Native replay of a counterexample of unit chunk.save_write_chunk: build the
** table state CBMC reported (vin.h), call the real psf_save_write_chunk under
** ASan/UBSan and evaluate the tagged postconditions in plain C. */
#include "chunk.c"
#include "vin.h"
#ifndef VIN_COUNT
#define VIN_COUNT 20
#endif
#ifndef VIN_USED
#define VIN_USED 20
#endif
#ifndef VIN_DATALEN
#define VIN_DATALEN 5
#endif
void * psf_memdup (const void *src, size_t n)
{	if (src == NULL) return NULL ;
	void * mem = calloc (1, n & 3 ? n + 4 - (n & 3) : n) ;
	if (mem != NULL) memcpy (mem, src, n) ;
	return mem ;
}
int main (void)
{	WRITE_CHUNKS w ; SF_CHUNK_INFO ci ;
	unsigned datalen = VIN_DATALEN > 65536 ? 65536 : VIN_DATALEN ;
	memset (&ci, 0, sizeof (ci)) ;
	strcpy (ci.id, "Test") ; ci.id_size = 4 ; ci.datalen = datalen ; ci.data = calloc (1, datalen ? datalen : 1) ;
	w.count = VIN_COUNT ; w.used = VIN_USED ;
	w.chunks = w.count ? calloc (w.count, sizeof (WRITE_CHUNK)) : NULL ;
	unsigned used0 = w.used ;
	int r = psf_save_write_chunk (&w, &ci) ;
	printf ("count %u used %u -> ret %d count %u used %u\n", (unsigned) VIN_COUNT, used0, r, w.count, w.used) ;
	if (r == 0 && !(w.used == used0 + 1 && w.used <= w.count))
	{	printf ("POSTCONDITION VIOLATED: used == old(used)+1 && used <= count (table invariant): the next call writes entry %u of a table recorded as %u entries\n", w.used, w.count) ;
		return 1 ;
		} ;
	return 0 ;
}
