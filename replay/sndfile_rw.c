/* Native replay for the sf_read_T/sf_readf_T/sf_write_T/sf_writef_T units: a real
** SF_PRIVATE is filled from the counterexample (vin.h), the dispatch table points to
** stubs that behave as the generic contract allows with the values CBMC chose
** (codec return value), the real wrapper from src/sndfile.c is called under
** ASan/UBSan with an exactly sized buffer, and the tagged postconditions are
** evaluated in plain C. */
#include "sndfile.c"
#include "vin.h"
#ifndef VIN_LEN
#define VIN_LEN 4
#endif
#ifndef VIN_FRAMES
#define VIN_FRAMES 100
#endif
#ifndef VIN_RC
#define VIN_RC 0
#endif
#ifndef VIN_WC
#define VIN_WC 0
#endif
#ifndef VIN_MODE
#define VIN_MODE SFM_RDWR
#endif
#ifndef VIN_LAST_OP
#define VIN_LAST_OP 0
#endif
#ifndef VIN_HAVE_WRITTEN
#define VIN_HAVE_WRITTEN 0
#endif
#ifndef GD_CODEC_RET
#define GD_CODEC_RET 3
#endif
static int codec_calls, seek_calls, hdr_calls ;
static sf_count_t stub_rw (SF_PRIVATE *psf, void *ptr, sf_count_t len)
{	sf_count_t r = GD_CODEC_RET ; codec_calls ++ ;
	if (r < 0) r = 0 ; if (r > len) r = len ;
#ifdef KIND_READ
	memset (ptr, 0x5A, r * sizeof (T)) ;
#endif
	return r ;
}
static sf_count_t stub_seek (SF_PRIVATE *psf, int mode, sf_count_t pos) { seek_calls ++ ; return pos ; }
static int stub_hdr (SF_PRIVATE *psf, int calc) { hdr_calls ++ ; return 0 ; }

int main (void)
{	SF_PRIVATE *psf = calloc (1, sizeof (SF_PRIVATE)) ;
	sf_count_t n = VIN_LEN, items, ret, ret_items ;
	int bad = 0 ;
	psf->Magick = SNDFILE_MAGICK ; psf->virtual_io = SF_TRUE ; psf->sf.channels = CH ;
	psf->sf.frames = VIN_FRAMES ; psf->read_current = VIN_RC ; psf->write_current = VIN_WC ;
	psf->file.mode = VIN_MODE ; psf->last_op = VIN_LAST_OP ; psf->have_written = VIN_HAVE_WRITTEN ;
	psf->seek = stub_seek ; psf->write_header = stub_hdr ;
#ifdef KIND_READ
	psf->read_short = (void *) stub_rw ; psf->read_int = (void *) stub_rw ; psf->read_float = (void *) stub_rw ; psf->read_double = (void *) stub_rw ;
#else
	psf->write_short = (void *) stub_rw ; psf->write_int = (void *) stub_rw ; psf->write_float = (void *) stub_rw ; psf->write_double = (void *) stub_rw ;
#endif
	/* CBMC likes huge requests; shrink the request (keeping its residue modulo the frame size and its
	** relation to the codec result) so that the buffer can be allocated */
	if (n > CH * 1024) n = (n % (CH * 1024)) + CH * 1024 ;
	items = FRAMESV ? n * CH : n ;
	T *buf = malloc (items > 0 ? items * sizeof (T) : 1) ;
	if (items > 0) memset (buf, 1, items * sizeof (T)) ;
	ret = FN ((SNDFILE *) psf, buf, n) ;
	ret_items = FRAMESV ? ret * CH : ret ;
	printf ("%s: len %ld channels %d frames %ld rc %ld wc %ld mode %d codec_ret %ld -> ret %ld read_current %ld write_current %ld frames %ld error %d\n",
		STR (FN), (long) n, CH, (long) VIN_FRAMES, (long) VIN_RC, (long) VIN_WC, VIN_MODE, (long) GD_CODEC_RET,
		(long) ret, (long) psf->read_current, (long) psf->write_current, (long) psf->sf.frames, psf->error) ;
	if (codec_calls == 1)
	{	if (ret_items % CH != 0) { printf ("POSTCONDITION VIOLATED (whole_frames): returned item count %ld is not a whole number of %d-channel frames\n", (long) ret_items, CH) ; bad = 1 ; }
#ifdef KIND_READ
		if (psf->read_current != VIN_RC + ret_items / CH) { printf ("POSTCONDITION VIOLATED (read_position_advances_by_ret)\n") ; bad = 1 ; }
		if (psf->write_current != VIN_WC || psf->sf.frames != VIN_FRAMES) { printf ("POSTCONDITION VIOLATED (read_leaves_write_side)\n") ; bad = 1 ; }
#else
		if (psf->write_current != VIN_WC + ret_items / CH) { printf ("POSTCONDITION VIOLATED (write_position_advances_by_ret)\n") ; bad = 1 ; }
		if (psf->sf.frames != (psf->write_current > VIN_FRAMES ? psf->write_current : VIN_FRAMES)) { printf ("POSTCONDITION VIOLATED (frames_is_max_of_old_and_write_position)\n") ; bad = 1 ; }
		if (psf->read_current != VIN_RC) { printf ("POSTCONDITION VIOLATED (write_leaves_read_position)\n") ; bad = 1 ; }
#endif
		} ;
	if (ret < 0 || (n > 0 && ret > n)) { printf ("POSTCONDITION VIOLATED (ret_range)\n") ; bad = 1 ; }
	return bad ;
}
